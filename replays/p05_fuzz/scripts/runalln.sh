#!/bin/bash
cd "$(dirname "$0")/.." && mkdir -p build && cd build
mkdir -p run_$1
seq 0 36 | xargs -P 4 -I{} sh -c "timeout 3000 ./npart{} $2 $3 $4 > run_$1/part{}.out 2> run_$1/part{}.err"
cd run_$1
grep -h "^XX\|^CRASH" *.out | cut -c1-300
grep -h "^TOTAL" *.out | awk '{c+=substr($2,9); f+=substr($3,22); k+=substr($4,9)} END {print "configs", c, "failing", f, "crashed", k}'
grep -h "^ok\|^XX" *.out | awk '{for(i=1;i<=NF;i++) if ($i=="cases,") n+=$(i+1)} END {print "checks", n}'

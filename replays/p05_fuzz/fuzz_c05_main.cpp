// Differential fuzz for property C05, main program.  Build one binary per PART (see fuzz_c05_configs.inc):
//   g++ -std=gnu++17 -O1 -g -fsanitize=address,undefined $INC -DPART=<k> fuzz_c05_main.cpp -o part<k>
//   ./part<k> [nCases] [maxLen] [seedShift]
// -DTABLE=2 / -DTABLE=3 select the two other option tables (same 270 flavour x column x index cells, other
// row-access / removable / container options).
// Coverage and results are described at the end of defects.md.  In short (negative results):
//  - configurations: 3 option tables x 270 cells (9 column types x {boundary R-only, RU+rep, RU+vine, chain,
//    chain+vine, chain+rep} x {CONTAINER, POSITION, IDENTIFIER} x {Z2, Zp}), each cell with another combination of
//    row access (none / intrusive / set rows), removable rows, removable columns, map container, swaps option and
//    max-dimension access; + 67 configurations with other Index / Dimension / field element types or without pairing.
//  - histories: random simplicial + general cells, implicit / explicit / sparse IDs, remove_last interleaved,
//    remove-everything-and-refill, copy / move / assign / swap in the middle, three constructors, primes 2..251.
//  - passed WITHOUT finding anything beyond defects 1-6 of defects.md:
//      ASan+UBSan -O1 : table 1: 325 configs x (500 cases of <=30 steps + 150 cases of <=150 steps);
//                       tables 2 and 3: 270 configs x 400 cases of <=40 steps
//      -O2 -DNDEBUG   : table 1: 325 configs x (1500 cases of <=40 steps + 2000 cases of <=120 steps);
//                       tables 2 and 3: 270 configs x 1500 cases of <=60 steps           (about 110 M step checks)
//    Defects 1 and 2 are stepped around by the harness (C05_ALLOW_MOVE=1 / C05_ALLOW_D2=1 re-enable them);
//    C05_RAWCOEF=1 feeds coefficients c + k*p (defect 4: all 65 Zp chain configurations fail, the others pass).
#include "fuzz_c05.h"
using CT = pm::Column_types;
using IX = pm::Column_indexation_types;
#ifndef PART
#define PART 0
#endif
int main(int argc, char** argv) {
  int nCases = argc > 1 ? atoi(argv[1]) : 150;
  int maxLen = argc > 2 ? atoi(argv[2]) : 30;
  int seedShift = argc > 3 ? atoi(argv[3]) : 0;
#if !defined(TABLE) || TABLE == 1
#include "fuzz_c05_configs.inc"
#elif TABLE == 2
#include "fuzz_c05_configs2.inc"
#else
#include "fuzz_c05_configs3.inc"
#endif
  return finish();
}

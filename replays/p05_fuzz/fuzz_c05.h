// Differential fuzz harness for GUDHI Persistence_matrix, property C05
// ("every persistence-matrix flavour computes the same, correct barcode and its exposed matrices satisfy their
// defining identities").  Shared by fuzz_c05_*.cpp.
//
// Reference: an independent sparse (std::map) left-to-right reduction over Z_p written here, recomputed from
// scratch after every step.
#ifndef FUZZ_C05_H
#define FUZZ_C05_H

#include <algorithm>
#include <cstdint>
#include <cstdio>
#include <cstdlib>
#include <iostream>
#include <map>
#include <memory>
#include <random>
#include <set>
#include <sstream>
#include <string>
#include <tuple>
#include <vector>
#include <sys/wait.h>
#include <unistd.h>

#include <gudhi/Matrix.h>
#include <gudhi/persistence_matrix_options.h>

namespace pm = Gudhi::persistence_matrix;
using u32 = unsigned int;
static const u32 NUL = static_cast<u32>(-1);

using Chain = std::map<u32, u32>;  // position -> coefficient in [1,p-1]

static u32 mod_inv(u32 a, u32 p) {
  for (u32 x = 1; x < p; ++x)
    if ((a * x) % p == 1) return x;
  return 0;
}
static void axpy(Chain& y, u32 a, const Chain& x, u32 p) {  // y += a*x
  a %= p;
  if (a == 0) return;
  for (auto& e : x) {
    u32 v = (y.count(e.first) ? y[e.first] : 0);
    v = (v + a * e.second) % p;
    if (v == 0)
      y.erase(e.first);
    else
      y[e.first] = v;
  }
}

struct RefCell {
  u32 id;
  int dim;
  Chain bd;                // in positions
  std::vector<int> verts;  // vertex labels if the cell is a simplex, empty otherwise
};

using Bar3 = std::tuple<int, u32, u32>;  // dim, birth, death

struct Reduction {
  std::vector<Chain> R, V;
  std::vector<u32> lowOwner;  // row pos -> column with that low
  std::vector<Bar3> bars;
};

static Reduction reduce(const std::vector<RefCell>& cells, u32 p) {
  Reduction r;
  u32 n = cells.size();
  r.R.resize(n);
  r.V.resize(n);
  r.lowOwner.assign(n, NUL);
  std::vector<u32> pairedWith(n, NUL);
  for (u32 j = 0; j < n; ++j) {
    r.R[j] = cells[j].bd;
    r.V[j] = Chain{{j, 1}};
    while (!r.R[j].empty()) {
      u32 low = r.R[j].rbegin()->first;
      u32 i = r.lowOwner[low];
      if (i == NUL) break;
      u32 c = (r.R[j].rbegin()->second * mod_inv(r.R[i].rbegin()->second, p)) % p;
      axpy(r.R[j], p - c, r.R[i], p);
      axpy(r.V[j], p - c, r.V[i], p);
    }
    if (!r.R[j].empty()) {
      u32 low = r.R[j].rbegin()->first;
      r.lowOwner[low] = j;
      pairedWith[low] = j;
    }
  }
  for (u32 j = 0; j < n; ++j) {
    if (r.R[j].empty()) r.bars.emplace_back(cells[j].dim, j, pairedWith[j]);
  }
  std::sort(r.bars.begin(), r.bars.end());
  return r;
}

// ------------------------------------------------------------------------------------------------
// Random filtered complexes
// ------------------------------------------------------------------------------------------------
struct Model {
  u32 p = 2;
  std::vector<RefCell> cells;
  std::map<std::vector<int>, u32> simplexPos;
  int nextVertex = 0;
  int maxSimplexDim = 3;

  Chain simplex_boundary(const std::vector<int>& t) const {
    Chain b;
    if (t.size() == 1) return b;
    for (size_t i = 0; i < t.size(); ++i) {
      std::vector<int> f(t);
      f.erase(f.begin() + i);
      u32 c = (i % 2 == 0) ? 1 : p - 1;
      axpy(b, c, Chain{{simplexPos.at(f), 1}}, p);
    }
    return b;
  }

  // finds a simplex not in the complex all of whose facets are
  bool missing_face(std::vector<int> t, std::vector<int>& out) const {
    for (int guard = 0; guard < 10; ++guard) {
      bool ok = true;
      if (t.size() > 1) {
        for (size_t i = 0; i < t.size(); ++i) {
          std::vector<int> f(t);
          f.erase(f.begin() + i);
          if (!simplexPos.count(f)) {
            t = f;
            ok = false;
            break;
          }
        }
      }
      if (ok) {
        if (simplexPos.count(t)) return false;
        out = t;
        return true;
      }
    }
    return false;
  }

  template <class Rng>
  RefCell gen_simplex(Rng& rng) {
    RefCell c;
    c.id = 0;
    std::vector<u32> simpl;
    for (u32 i = 0; i < cells.size(); ++i)
      if (!cells[i].verts.empty() && (int)cells[i].verts.size() <= maxSimplexDim) simpl.push_back(i);
    if (!simpl.empty() && nextVertex >= 2 && rng() % 100 >= 25) {
      std::vector<int> vs;
      for (auto& kv : simplexPos)
        if (kv.first.size() == 1) vs.push_back(kv.first[0]);
      for (int tries = 0; tries < 20; ++tries) {
        const auto& s = cells[simpl[rng() % simpl.size()]].verts;
        int v = vs[rng() % vs.size()];
        if (std::find(s.begin(), s.end(), v) != s.end()) continue;
        std::vector<int> t(s);
        t.push_back(v);
        std::sort(t.begin(), t.end());
        std::vector<int> out;
        if (!missing_face(t, out)) continue;
        c.verts = out;
        c.dim = out.size() - 1;
        c.bd = simplex_boundary(out);
        return c;
      }
    }
    c.verts = {nextVertex};
    c.dim = 0;
    return c;
  }

  // a cell whose boundary is a random cycle of the current complex
  template <class Rng>
  bool gen_general(Rng& rng, RefCell& c, bool allowEmpty) {
    Reduction red = reduce(cells, p);
    std::vector<u32> cyc;
    for (u32 j = 0; j < cells.size(); ++j)
      if (red.R[j].empty() && cells[j].dim <= 3) cyc.push_back(j);
    if (cyc.empty()) return false;
    u32 j0 = cyc[rng() % cyc.size()];
    int d = cells[j0].dim;
    Chain b;
    axpy(b, 1 + rng() % (p - 1), red.V[j0], p);
    int extra = rng() % 3;
    for (int k = 0; k < extra; ++k) {
      u32 j = cyc[rng() % cyc.size()];
      if (cells[j].dim != d) continue;
      axpy(b, 1 + rng() % (p - 1), red.V[j], p);
    }
    if (b.empty() && !allowEmpty) return false;
    c.id = 0;
    c.dim = d + 1;
    c.bd = b;
    c.verts.clear();
    return true;
  }

  void push(const RefCell& c) {
    if (!c.verts.empty()) {
      simplexPos[c.verts] = cells.size();
      if (c.verts.size() == 1) nextVertex = std::max(nextVertex, c.verts[0] + 1);
    }
    cells.push_back(c);
  }
  void pop() {
    if (!cells.back().verts.empty()) simplexPos.erase(cells.back().verts);
    cells.pop_back();
  }
};

// ------------------------------------------------------------------------------------------------
// Options
// ------------------------------------------------------------------------------------------------
// FL: 0 boundary (R only), 1 RU (rep cycles), 2 RU (vine), 3 chain, 4 chain + vine, 5 chain + rep cycles
// RA: 0 no row access, 1 intrusive rows, 2 set rows
template <pm::Column_types C, bool Z2, int FL, pm::Column_indexation_types IDX, int RA, bool REMROW, bool REMCOL,
          bool MAP, bool SWAPS = false, bool MAXDIM = true, class IndexT = unsigned int, class DimT = int,
          bool PAIR = true, class ElemT = unsigned int>
struct Opt {
  using Field_coeff_operators = Gudhi::persistence_fields::Zp_field_operators<ElemT>;
  using Dimension = DimT;
  using Index = IndexT;

  static const bool is_z2 = Z2;
  static const pm::Column_types column_type = C;
  static const pm::Column_indexation_types column_indexation_type = IDX;

  static const bool has_column_compression = false;
  static const bool has_column_and_row_swaps = SWAPS;

  static const bool has_map_column_container = MAP;
  static const bool has_removable_columns = REMCOL;

  static const bool has_row_access = RA != 0;
  static const bool has_intrusive_rows = RA == 1;
  static const bool has_removable_rows = REMROW;

  static const bool is_of_boundary_type = FL < 3;

  static const bool has_matrix_maximal_dimension_access = MAXDIM;
  static const bool has_column_pairings = PAIR;
  static const bool has_vine_update = FL == 2 || FL == 4;
  static const bool can_retrieve_representative_cycles = FL == 1 || FL == 5;

  static const int flavour = FL;
  static std::string name() {
    static const char* cn[] = {"LIST", "SET", "HEAP", "VECTOR", "NAIVE_VECTOR", "SMALL_VECTOR", "UNORDERED_SET",
                               "INTRUSIVE_LIST", "INTRUSIVE_SET"};
    static const char* fn[] = {"BOUNDARY", "RU_REP", "RU_VINE", "CHAIN", "CHAIN_VINE", "CHAIN_REP"};
    static const char* in[] = {"CONTAINER", "POSITION", "IDENTIFIER"};
    std::ostringstream s;
    s << fn[FL] << "/" << cn[(int)C] << "/" << (Z2 ? "Z2" : "Zp") << "/" << in[(int)IDX] << "/RA" << RA
      << (REMROW ? "/remrow" : "") << (REMCOL ? "/remcol" : "") << (MAP ? "/map" : "") << (SWAPS ? "/swaps" : "")
      << (MAXDIM ? "" : "/nomaxdim") << (PAIR ? "" : "/nopairing");
    if (!std::is_same<IndexT, unsigned int>::value)
      s << "/Index=" << (std::is_signed<IndexT>::value ? "s" : "u") << 8 * sizeof(IndexT);
    if (!std::is_same<ElemT, unsigned int>::value) s << "/Element=u" << 8 * sizeof(ElemT);
    if (!std::is_same<DimT, int>::value) s << "/Dim=" << (std::is_signed<DimT>::value ? "s" : "u") << 8 * sizeof(DimT);
    return s.str();
  }
};

// ------------------------------------------------------------------------------------------------
// Tester
// ------------------------------------------------------------------------------------------------
struct Failure : std::runtime_error {
  using std::runtime_error::runtime_error;
};

static long g_checks = 0, g_cases = 0, g_fail_total = 0;
static bool g_verbose = getenv("C05_VERBOSE") != nullptr;
static std::map<std::string, int> g_fail_kinds;
static std::ostringstream* g_current_log = nullptr;
static u32 g_current_seed = 0;
#if defined(__SANITIZE_ADDRESS__)
extern "C" void __sanitizer_set_death_callback(void (*)(void));
static void on_death() {
  std::printf("SANITIZER-DEATH seed=%u\n--- history\n%s---\n", g_current_seed, g_current_log ? g_current_log->str().c_str() : "");
  std::fflush(stdout);
}
#endif

template <class O>
struct Tester {
  using M = pm::Matrix<O>;
  static constexpr int FL = O::flavour;
  static constexpr bool isChain = FL >= 3;
  static constexpr bool isRU = FL == 1 || FL == 2;
  static constexpr bool isB = FL == 0;
  static constexpr bool ident = O::column_indexation_type == pm::Column_indexation_types::IDENTIFIER;
  static constexpr bool canRemove =
      O::has_removable_columns && (O::is_of_boundary_type || O::has_map_column_container || !O::has_vine_update);
  using ER = typename M::Entry_representative;

  std::unique_ptr<M> m;
  Model model;
  std::vector<u32> matIdx;  // position -> MatIdx
  u32 insertCounter = 0;
  int idMode = 0;  // 0: implicit ids, 1: explicit ids == position, 2: explicit ids with gaps, 3: big gaps
  bool reduced = false;
  bool rawCoef = false;  // Zp input coefficients given as value + k*p
  std::ostringstream log;
  std::mt19937 rng;

  // ---- helpers
  mutable u32 rawK = 0;
  std::vector<ER> to_input(const RefCell& c) const {
    std::vector<ER> b;
    for (auto& e : c.bd) {
      if constexpr (O::is_z2)
        b.push_back(model.cells[e.first].id);
      else
        b.push_back(ER(model.cells[e.first].id, e.second + (rawCoef ? (rawK++ % 4) * model.p : 0)));
    }
    return b;
  }
  u32 key(u32 pos) const {
    if constexpr (ident)
      return model.cells[pos].id;
    else if constexpr (O::column_indexation_type == pm::Column_indexation_types::CONTAINER)
      return matIdx[pos];
    else
      return pos;
  }
  u32 key_to_pos(u32 k) const {
    for (u32 i = 0; i < model.cells.size(); ++i)
      if (key(i) == k) return i;
    return NUL;
  }
  u32 id_to_pos(u32 id) const {
    for (u32 i = 0; i < model.cells.size(); ++i)
      if (model.cells[i].id == id) return i;
    return NUL;
  }
  u32 mat_to_pos(u32 mi) const {
    for (u32 i = 0; i < matIdx.size(); ++i)
      if (matIdx[i] == mi) return i;
    return NUL;
  }
  template <class T>
  static u32 norm(T v) {
    return v == static_cast<T>(-1) ? NUL : static_cast<u32>(v);
  }
  u32 maxId() const { return model.cells.empty() ? 0 : model.cells.back().id; }

  [[noreturn]] void fail(const std::string& kind, const std::string& what) {
    throw Failure(kind + ": " + what);
  }

  // column content with rows given as IDs -> chain in positions
  template <class Col>
  Chain content_ids(const Col& col, const char* what) {
    auto v = col.get_content(maxId() + 1);
    Chain c;
    for (u32 r = 0; r < v.size(); ++r) {
      u32 val = v[r];
      if (val == 0) continue;
      u32 pos = id_to_pos(r);
      if (pos == NUL) {
        std::ostringstream s;
        s << what << " has an entry at row " << r << " which is the ID of no cell";
        fail("ghost-row", s.str());
      }
      if (val >= model.p) fail("unreduced-coef", "coefficient not reduced mod p");
      c[pos] = val;
    }
    // nothing beyond maxId ?
    auto v2 = col.get_content(-1);  // (VECTOR columns return trailing zeros here after a lazy erasure: tolerated)
    for (u32 r = maxId() + 1; r < v2.size(); ++r)
      if (v2[r] != 0) fail("ghost-row", std::string(what) + " has entries beyond the largest cell ID");
    return c;
  }
  template <class Col>
  Chain content_pos(const Col& col, u32 n) {  // rows are positions (U of RU)
    auto v = col.get_content(n);
    Chain c;
    for (u32 r = 0; r < v.size(); ++r)
      if (v[r] != 0) c[r] = v[r];
    auto v2 = col.get_content(-1);
    for (u32 r = n; r < v2.size(); ++r)
      if (v2[r] != 0) fail("ghost-row", "U column has entries beyond the number of cells");
    return c;
  }
  Chain boundary_of(const Chain& c) const {
    Chain b;
    for (auto& e : c) axpy(b, e.second, model.cells[e.first].bd, model.p);
    return b;
  }
  static std::string str(const Chain& c) {
    std::ostringstream s;
    s << "{";
    for (auto& e : c) s << e.first << ":" << e.second << " ";
    s << "}";
    return s.str();
  }

  // ---- operations
  void construct(int variant, u32 nReserve) {
    if (variant == 0) {
      m.reset(new M());
      if constexpr (!O::is_z2) m->set_characteristic(model.p);
    } else {
      if constexpr (O::is_z2)
        m.reset(new M(nReserve));
      else
        m.reset(new M(nReserve, model.p));
    }
    log << "ctor" << variant << "(" << nReserve << ") p=" << model.p << " idMode=" << idMode << "\n";
  }
  void construct_from(const std::vector<RefCell>& prefix) {
    std::vector<std::vector<ER> > cols;
    for (auto& c : prefix) {
      model.push(c);
      model.cells.back().id = model.cells.size() - 1;
      cols.push_back(to_input(c));
      matIdx.push_back(insertCounter++);
    }
    if constexpr (O::is_z2)
      m.reset(new M(cols));
    else
      m.reset(new M(cols, model.p));
    log << "ctor-from-boundaries n=" << prefix.size() << " p=" << model.p << "\n";
  }

  void insert(RefCell c, bool passDim) {
    u32 pos = model.cells.size();
    u32 last = pos == 0 ? NUL : model.cells.back().id;
    switch (idMode) {
      case 0: c.id = (FL == 4 ? insertCounter : pos); break;  // documented: implicit ID = rank of the insertion
      case 1: c.id = pos; break;
      case 2: c.id = (pos == 0 ? rng() % 4 : last + 1 + rng() % 4); break;
      default: c.id = (pos == 0 ? rng() % 50 : last + 1 + (rng() % 5 == 0 ? rng() % 300 : rng() % 3)); break;
    }
    auto b = to_input(c);
    log << "insert id=" << c.id << " dim=" << c.dim << (passDim ? "(passed)" : "(deduced)") << " bd(pos)=" << str(c.bd)
        << "\n";
    model.push(c);
    matIdx.push_back(FL == 4 ? insertCounter : pos);
    ++insertCounter;
    if (idMode == 0) {
      if (passDim)
        m->insert_boundary(b, c.dim);
      else
        m->insert_boundary(b);
    } else {
      if (passDim)
        m->insert_boundary(c.id, b, c.dim);
      else
        m->insert_boundary(c.id, b);
    }
  }
  void remove_last() {
    if constexpr (canRemove) {
      if (FL == 4 && O::column_indexation_type != pm::Column_indexation_types::POSITION && model.cells.size() == 1 &&
          model.cells[0].id == 0 && matIdx[0] != 0 && !getenv("C05_ALLOW_D2"))
        return;  // known defect 2
      log << "remove_last\n";
      m->remove_last();
      if (!model.cells.empty()) {
        model.pop();
        matIdx.pop_back();
      }
    }
  }

  // ---- checks
  void check_barcode(const Reduction& red) {
    if constexpr (!O::has_column_pairings) {
      (void)red;
      return;
    } else {
    std::vector<Bar3> got;
    for (auto& b : m->get_current_barcode()) got.emplace_back((int)b.dim, norm(b.birth), norm(b.death));
    std::sort(got.begin(), got.end());
    if (got != red.bars) {
      std::ostringstream s;
      s << "got";
      for (auto& b : got) s << " [" << std::get<0>(b) << "](" << std::get<1>(b) << "," << (int)std::get<2>(b) << ")";
      s << " expected";
      for (auto& b : red.bars)
        s << " [" << std::get<0>(b) << "](" << std::get<1>(b) << "," << (int)std::get<2>(b) << ")";
      fail("barcode", s.str());
    }
    }
  }

  void check_common() {
    u32 n = model.cells.size();
    if (m->get_number_of_columns() != n) {
      std::ostringstream s;
      s << "get_number_of_columns=" << (u32)m->get_number_of_columns() << " expected " << n;
      fail("ncols", s.str());
    }
    int md = -1;
    for (u32 j = 0; j < n; ++j) {
      md = std::max(md, model.cells[j].dim);
      int d = (int)m->get_column_dimension(key(j));
      if (d != model.cells[j].dim) {
        std::ostringstream s;
        s << "get_column_dimension(" << key(j) << ")=" << d << " expected " << model.cells[j].dim;
        fail("dim", s.str());
      }
    }
    if constexpr (O::has_matrix_maximal_dimension_access) {
      if ((int)m->get_max_dimension() != md) {
        std::ostringstream s;
        s << "get_max_dimension=" << (int)m->get_max_dimension() << " expected " << md;
        fail("maxdim", s.str());
      }
    }
  }

  template <class RowT>
  std::map<u32, u32> row_entries(const RowT& row, u32 expectedRow) {
    std::map<u32, u32> r;  // column MatIdx -> value
    for (const auto& e : row) {
      if (e.get_row_index() != expectedRow) fail("row-access", "entry in row has another row index");
      u32 v;
      if constexpr (O::is_z2)
        v = 1;
      else
        v = e.get_element();
      if (r.count(e.get_column_index())) fail("row-access", "two entries of the same column in a row");
      r[e.get_column_index()] = v;
    }
    return r;
  }

  // cols[j] : chain (in positions) of column at position j; verifies rows (indexed by ID) against it
  void check_rows(const std::vector<Chain>& cols) {
    if constexpr (O::has_row_access) {
      u32 n = model.cells.size();
      std::vector<std::map<u32, u32> > expected(n);  // row pos -> (col matidx -> val)
      for (u32 j = 0; j < n; ++j)
        for (auto& e : cols[j]) expected[e.first][matIdx[j]] = e.second;
      for (u32 r = 0; r < n; ++r) {
        if (expected[r].empty()) continue;  // the row may legitimately not exist
        u32 rid = model.cells[r].id;
        std::map<u32, u32> got;
        if constexpr (isRU && !ident)
          got = row_entries(m->get_row(rid, true), rid);
        else
          got = row_entries(m->get_row(rid), rid);
        if (got != expected[r]) {
          std::ostringstream s;
          s << "row " << rid << " differs from the columns";
          fail("row-access", s.str());
        }
      }
    }
  }

  void check_reduced_and_pivots(const std::vector<Chain>& R, bool pivotMap) {
    u32 n = R.size();
    std::map<u32, u32> seen;
    for (u32 j = 0; j < n; ++j) {
      u32 piv = norm(m->get_pivot(key(j)));
      bool z = m->is_zero_column(key(j));
      if (z != R[j].empty()) fail("is_zero_column", "disagrees with content");
      if (R[j].empty()) {
        if (piv != NUL) fail("pivot", "get_pivot of a zero column is not the null value");
        continue;
      }
      u32 low = R[j].rbegin()->first;
      if (piv != model.cells[low].id) {
        std::ostringstream s;
        s << "get_pivot(" << key(j) << ")=" << piv << " but lowest entry is at ID " << model.cells[low].id;
        fail("pivot", s.str());
      }
      if (seen.count(low)) {
        std::ostringstream s;
        s << "columns " << seen[low] << " and " << j << " have the same lowest entry " << low;
        fail("not-reduced", s.str());
      }
      seen[low] = j;
      if (pivotMap) {
        if constexpr (!isB) {
          u32 k = m->get_column_with_pivot(piv);
          if (k != key(j)) {
            std::ostringstream s;
            s << "get_column_with_pivot(" << piv << ")=" << k << " expected " << key(j);
            fail("pivot-map", s.str());
          }
        }
      }
    }
  }

  void check_B(bool afterBarcode, const Reduction& red) {
    u32 n = model.cells.size();
    std::vector<Chain> R(n);
    for (u32 j = 0; j < n; ++j) R[j] = content_ids(m->get_column(key(j)), "R column");
    if (!afterBarcode) {
      for (u32 j = 0; j < n; ++j)
        if (R[j] != model.cells[j].bd) {
          std::ostringstream s;
          s << "column " << j << " is " << str(R[j]) << " but boundary " << str(model.cells[j].bd) << " was inserted";
          fail("stored-boundary", s.str());
        }
    } else {
      check_reduced_and_pivots(R, false);
      for (u32 j = 0; j < n; ++j) {
        if (R[j].empty()) continue;
        u32 low = R[j].rbegin()->first;
        if (red.lowOwner[low] != j) fail("R-pairing", "lowest entry of a reduced column is not its partner");
      }
    }
    check_rows(R);
  }

  void check_RU(const Reduction&) {
    u32 n = model.cells.size();
    std::vector<Chain> R(n);
    for (u32 j = 0; j < n; ++j) R[j] = content_ids(m->get_column(key(j)), "R column");
    check_reduced_and_pivots(R, true);
    check_rows(R);
    if constexpr (!ident) {
      std::vector<Chain> U(n);
      for (u32 j = 0; j < n; ++j) {
        Chain r2 = content_ids(m->get_column(j, true), "R column");
        if (r2 != R[j]) fail("get_column", "get_column(i) and get_column(i,true) differ");
        U[j] = content_pos(m->get_column(j, false), n);
      }
      // orientation: Z2 stores the transpose of U (R*U = B), Zp stores V (R = B*V)
      bool upper = true, lower = true, diag = true;
      for (u32 j = 0; j < n; ++j) {
        if (!U[j].count(j)) diag = false;
        for (auto& e : U[j]) {
          if (e.first > j) upper = false;
          if (e.first < j) lower = false;
        }
      }
      if (!diag) fail("U-diagonal", "the exposed U has a zero on its diagonal: it is not invertible triangular");
      if (!upper && !lower) fail("U-triangular", "the exposed U is neither upper nor lower triangular");
      auto mat = [&](bool transpose, u32 i, u32 k) -> u32 {  // entry (i,k)
        const Chain& c = transpose ? U[i] : U[k];
        u32 r = transpose ? k : i;
        auto it = c.find(r);
        return it == c.end() ? 0 : it->second;
      };
      bool ok = false;
      for (int tr = 0; tr < 2 && !ok; ++tr) {
        // is R*M == B ?
        bool good = true;
        for (u32 k = 0; k < n && good; ++k) {
          Chain acc;
          for (u32 i = 0; i < n; ++i) axpy(acc, mat(tr, i, k), R[i], model.p);
          if (acc != model.cells[k].bd) good = false;
        }
        // triangular in that orientation?
        if (good && !(tr ? lower : upper)) good = false;
        if (good) ok = true;
        // is B*M == R ?
        if (!ok) {
          good = true;
          for (u32 k = 0; k < n && good; ++k) {
            Chain acc;
            for (u32 i = 0; i < n; ++i) axpy(acc, mat(tr, i, k), model.cells[i].bd, model.p);
            if (acc != R[k]) good = false;
          }
          if (good && !(tr ? lower : upper)) good = false;
          if (good) ok = true;
        }
      }
      if (!ok) {
        std::ostringstream s;
        s << "neither R*U=B nor B*U=R (nor with U transposed). R:";
        for (u32 j = 0; j < n; ++j) s << " " << str(R[j]);
        s << " U:";
        for (u32 j = 0; j < n; ++j) s << " " << str(U[j]);
        fail("RU-factorisation", s.str());
      }
      if constexpr (O::has_row_access) {
        // rows of U
        for (u32 r = 0; r < n; ++r) {
          std::map<u32, u32> exp;
          for (u32 j = 0; j < n; ++j)
            if (U[j].count(r)) exp[j] = U[j][r];
          if (exp.empty()) continue;
          auto got = row_entries(m->get_row(r, false), r);
          if (got != exp) fail("row-access", "row of U differs from the columns of U");
        }
      }
    }
  }

  void check_chain(const Reduction& red) {
    u32 n = model.cells.size();
    std::vector<Chain> C(n);
    std::map<u32, u32> seen;
    for (u32 j = 0; j < n; ++j) {
      const auto& col = m->get_column(key(j));
      C[j] = content_ids(col, "chain column");
      if (C[j].empty()) fail("chain-empty", "empty chain column");
      if (m->is_zero_column(key(j))) fail("is_zero_column", "chain column reported zero");
      u32 lead = C[j].rbegin()->first;
      u32 piv = norm(m->get_pivot(key(j)));
      if (piv != model.cells[lead].id) {
        std::ostringstream s;
        s << "get_pivot(" << key(j) << ")=" << piv << " but leading cell has ID " << model.cells[lead].id;
        fail("pivot", s.str());
      }
      if (seen.count(lead)) fail("chain-leading", "two chain columns have the same leading cell");
      seen[lead] = j;
      u32 k = m->get_column_with_pivot(piv);
      if (k != key(j)) {
        std::ostringstream s;
        s << "get_column_with_pivot(" << piv << ")=" << k << " expected " << key(j);
        fail("pivot-map", s.str());
      }
    }
    std::vector<Bar3> fromPairs;
    for (u32 j = 0; j < n; ++j) {
      const auto& col = m->get_column(key(j));
      Chain bd = boundary_of(C[j]);
      if (!col.is_paired()) {
        if (!bd.empty()) {
          std::ostringstream s;
          s << "unpaired chain column " << j << " = " << str(C[j]) << " is not a cycle, boundary " << str(bd);
          fail("chain-cycle", s.str());
        }
        fromPairs.emplace_back(model.cells[C[j].rbegin()->first].dim, C[j].rbegin()->first, NUL);
      } else {
        u32 q = mat_to_pos(col.get_paired_chain_index());
        if (q == NUL) fail("chain-pair", "paired with a column that does not exist");
        const auto& colq = m->get_column(key(q));
        if (!colq.is_paired() || mat_to_pos(colq.get_paired_chain_index()) != j)
          fail("chain-pair", "pairing is not symmetric");
        u32 lj = C[j].rbegin()->first, lq = C[q].rbegin()->first;
        if (lj > lq) {  // j is the H column (dies q's class), boundary must be C[q]
          if (bd != C[q]) {
            std::ostringstream s;
            s << "boundary of paired column " << j << " = " << str(C[j]) << " is " << str(bd) << " but its partner "
              << q << " is " << str(C[q]);
            fail("chain-boundary", s.str());
          }
        } else {
          if (!bd.empty()) fail("chain-cycle", "paired F column is not a cycle");
          fromPairs.emplace_back(model.cells[lj].dim, lj, lq);
        }
      }
    }
    std::sort(fromPairs.begin(), fromPairs.end());
    if (fromPairs != red.bars) fail("chain-pairing-vs-barcode", "pairs stored in the columns differ from the barcode");
    check_rows(C);
  }

  void check() {
    ++g_checks;
    Reduction red = reduce(model.cells, model.p);
    check_common();
    if constexpr (isB) {
      if (reduced) check_barcode(red);
      check_B(reduced, red);
    } else {
      check_barcode(red);
      if constexpr (isRU) check_RU(red);
      if constexpr (isChain) check_chain(red);
    }
  }

  // copy / move / assign in the middle of a history
  void shuffle_object() {
    int k = rng() % 5;
    if (k == 2 && isChain && ident && !getenv("C05_ALLOW_MOVE")) k = 0;  // known defect 1
    switch (k) {
      case 0: {
        log << "copy-construct, continue on the copy\n";
        std::unique_ptr<M> c(new M(*m));
        m = std::move(c);
        break;
      }
      case 1: {
        log << "copy-construct, destroy copy, continue on the original\n";
        {
          M c(*m);
          (void)c.get_number_of_columns();
        }
        break;
      }
      case 2: {
        log << "move-construct, continue on the new one\n";
        std::unique_ptr<M> c(new M(std::move(*m)));
        m = std::move(c);
        break;
      }
      case 3: {
        log << "assign to a fresh matrix, continue on it\n";
        std::unique_ptr<M> c(new M());
        *c = *m;
        m = std::move(c);
        break;
      }
      default: {
        log << "swap with a fresh matrix, continue on it\n";
        std::unique_ptr<M> c(new M());
        swap(*c, *m);
        m = std::move(c);
        break;
      }
    }
  }

  template <class R>
  RefCell gen_cell(R& r, int general) {
    RefCell c;
    if (general > 0 && (int)(r() % 100) < general && model.cells.size() > 1) {
      if (model.gen_general(r, c, r() % 10 == 0)) return c;
    }
    return model.gen_simplex(r);
  }

  // one random history; returns empty string when fine
  std::string run_case(u32 seed, int maxLen) {
    rng.seed(seed);
    static const u32 primes[] = {2, 3, 5, 7, 11, 13, 17, 251};
    model.p = O::is_z2 ? 2 : primes[rng() % 8];
    idMode = rng() % 4;
    int general = (rng() % 3 == 0) ? 0 : (rng() % 60);
    int len = 1 + rng() % maxLen;
    int removeRate = canRemove ? (rng() % 3) * 15 : 0;
    bool objOps = rng() % 3 == 0;
    rawCoef = !O::is_z2 && getenv("C05_RAWCOEF") && rng() % 2;
    if (rawCoef) log << "raw coefficients (value + k*p)\n";
    try {
      int ctor = rng() % 3;
      if (ctor == 2 && !model.cells.empty()) ctor = 0;
      if (ctor == 2) {
        idMode = 0;
        std::vector<RefCell> prefix;
        Model tmp;
        tmp.p = model.p;
        int k = rng() % 12;
        for (int i = 0; i < k; ++i) {
          RefCell c = tmp.gen_simplex(rng);
          c.id = tmp.cells.size();
          tmp.push(c);
          prefix.push_back(c);
        }
        construct_from(prefix);
      } else {
        construct(ctor, rng() % 2 ? 0 : rng() % 30);
      }
      if constexpr (!isB) check();
      for (int step = 0; step < len; ++step) {
        u32 r = rng() % 100;
        if ((int)r < removeRate) {
          remove_last();
        } else if (r < 97 || !objOps) {
          RefCell c = gen_cell(rng, general);
          bool passDim = c.verts.empty() || rng() % 2;
          insert(c, passDim);
        } else {
          shuffle_object();
        }
        if (canRemove && rng() % 40 == 0) {  // remove everything, then go on
          while (!model.cells.empty()) {
            size_t before = model.cells.size();
            remove_last();
            check();
            if (model.cells.size() == before) break;  // removal skipped (known defect 2)
          }
          if (rng() % 2) remove_last();  // on an empty matrix: documented as a no-op in the implementations
        }
        check();
      }
      if constexpr (isB) {
        log << "get_current_barcode\n";
        reduced = true;
        check();
        if constexpr (canRemove) {
          int k = rng() % (model.cells.size() + 1);
          for (int i = 0; i < k; ++i) {
            if (objOps && rng() % 6 == 0) shuffle_object();
            remove_last();
            check();
          }
        }
      }
    } catch (const Failure& f) {
      return f.what();
    } catch (const std::exception& e) {
      return std::string("exception: ") + e.what();
    }
    return "";
  }
};

static int g_configs = 0, g_configs_failed = 0, g_configs_crashed = 0;

template <class O>
void run_config(u32 baseSeed, int nCases, int maxLen) {
  std::string name = O::name();
  std::printf("[config] %s\n", name.c_str());
  std::fflush(stdout);
  ++g_configs;
  pid_t pid = fork();
  if (pid == 0) {
#if defined(__SANITIZE_ADDRESS__)
    __sanitizer_set_death_callback(on_death);
#endif
    int fails = 0;
    std::map<std::string, int> kinds;
    for (int i = 0; i < nCases; ++i) {
      u32 seed = baseSeed * 7919u + i;
      if (g_verbose) {
        std::printf("  case seed=%u\n", seed);
        std::fflush(stdout);
      }
      Tester<O> t;
      g_current_log = &t.log;
      g_current_seed = seed;
      std::string res = t.run_case(seed, maxLen);
      g_current_log = nullptr;
      if (!res.empty()) {
        ++fails;
        std::string kind = res.substr(0, res.find(':'));
        if (++kinds[kind] <= 1) {
          std::printf("FAIL config=%s seed=%u : %s\n--- history\n%s---\n", name.c_str(), seed, res.substr(0, 1500).c_str(),
                      t.log.str().c_str());
        }
      }
    }
    std::printf("%s %s : %d/%d failing cases, %ld checks", fails ? "XX" : "ok", name.c_str(), fails, nCases, g_checks);
    for (auto& k : kinds) std::printf(" [%s x%d]", k.first.c_str(), k.second);
    std::printf("\n");
    std::fflush(stdout);
    _exit(fails ? 1 : 0);
  }
  int status = 0;
  waitpid(pid, &status, 0);
  if (WIFEXITED(status) && WEXITSTATUS(status) == 0) return;
  if (WIFEXITED(status) && WEXITSTATUS(status) == 1) {
    ++g_configs_failed;  // may also be the sanitizer aborting
    return;
  }
  ++g_configs_crashed;
  std::printf("CRASH %s : status %d\n", name.c_str(), status);
  std::fflush(stdout);
}

static int finish() {
  std::printf("TOTAL configs=%d failing-or-sanitizer=%d crashed=%d\n", g_configs, g_configs_failed, g_configs_crashed);
  return (g_configs_failed || g_configs_crashed) ? 1 : 0;
}

#endif

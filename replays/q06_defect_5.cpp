// Defect 5 (found on the way, NOT specific to swaps: a freshly built matrix shows it, and so does every matrix
// reached by vine swaps): over Z_2 the representative cycles of an RU matrix are read from the wrong matrix.
// RU_matrix::_reduce_column_by (RU_matrix.h:865-869) stores U "transposed" for Z_2: when column `target` receives
// column `source`, only the entry `target` is appended to the stored column `source`, i.e. the stored columns are the
// ROWS of U with B = R*U. RU_representative_cycles::update_representative_cycles (ru_rep_cycles.h:136-159) then
// returns, for a zero column b of R, the set {i : U[i][b] != 0} = column b of U. A representative cycle is column b
// of V = U^{-1} (B*V = R, so B*V_b = 0). The two coincide only when no reducing column was itself reduced before.
//
// Example: square a b c d with edges ab, cd, bd, ac inserted in this order: bd is reduced by cd, then ac is reduced
// by bd and ab. The loop born with ac is {ab, cd, bd, ac}; the library returns {ab, bd, ac}, which is not a cycle.
//
// Build: g++ -std=gnu++17 -O1 -g -fsanitize=address,undefined -I<gudhi>/src/Persistence_matrix/include
//            -I<gudhi>/src/common/include defect_5.cpp -o defect_5
#include <gudhi/Matrix.h>
#include <gudhi/persistence_matrix_options.h>

#include <iostream>
#include <map>
#include <vector>

using namespace Gudhi::persistence_matrix;

template <bool vine>
struct Opt : Default_options<Column_types::INTRUSIVE_SET, true> {
  static const bool has_column_pairings = true;
  static const bool can_retrieve_representative_cycles = true;
  static const bool has_vine_update = vine;
};

template <class M>
int run(const char* name) {
  std::vector<std::vector<unsigned>> b = {{}, {}, {}, {}, {0, 1}, {2, 3}, {1, 3}, {0, 2}};
  M m;
  for (auto& x : b) m.insert_boundary(x);
  m.update_representative_cycles();
  int bad = 0;
  for (const auto& cyc : m.get_representative_cycles()) {
    std::map<unsigned, int> bd;
    std::cout << name << ": cycle {";
    for (unsigned c : cyc) {
      std::cout << c << " ";
      for (unsigned f : b[c]) bd[f] ^= 1;
    }
    bool isCycle = true;
    for (auto& p : bd)
      if (p.second) isCycle = false;
    std::cout << "}" << (isCycle ? "" : "   <-- boundary not zero: not a cycle (expected {4 5 6 7})") << "\n";
    if (!isCycle) ++bad;
  }
  return bad;
}

int main() {
  int bad = 0;
  bad += run<Matrix<Opt<false>>>("RU, representative cycles only ");
  bad += run<Matrix<Opt<true>>>("RU, representative cycles + vine");
  std::cout << (bad ? "FAIL" : "PASS") << std::endl;
  return bad ? 1 : 0;
}

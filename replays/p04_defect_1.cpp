// defect_1: Simplex_tree::insert_graph() of a graph adaptor that shows no vertex (boost::filtered_graph whose vertex
// predicate rejects everything) leaves an EMPTY complex with dimension 0 instead of -1.
// Cause: Simplex_tree.h, insert_graph(): the early exit tests boost::num_vertices(skel_graph), which for a
// filtered_graph is the vertex count of the UNDERLYING graph, then sets dimension_ = 0 unconditionally (l.1508-1513)
// although vertices(skel_graph) is empty and nothing is inserted.
// Expected: an empty complex: dimension() == -1, equal to a default constructed tree (as after clear()).
// Build: g++ -std=gnu++17 -O1 -g -fsanitize=address,undefined -I<gudhi includes> defect_1.cpp -o defect_1 -ltbb
#include <gudhi/Simplex_tree.h>
#include <gudhi/graph_simplicial_complex.h>
#include <boost/graph/adjacency_list.hpp>
#include <boost/graph/filtered_graph.hpp>
#include <iostream>

using ST = Gudhi::Simplex_tree<>;
using G = boost::adjacency_list<boost::vecS, boost::vecS, boost::directedS,
                                boost::property<Gudhi::vertex_filtration_t, double>,
                                boost::property<Gudhi::edge_filtration_t, double>>;
struct Keep_none {
  bool operator()(int) const { return false; }
};

int main() {
  G g(3);
  boost::add_edge(0, 1, 1., g);
  boost::filtered_graph<G, boost::keep_all, Keep_none> fg(g, boost::keep_all(), Keep_none());
  ST st;
  st.insert_graph(fg);
  st.expansion(3);  // route "one-shot expansion" on the graph with no vertex
  ST empty;
  bool fail = false;
  std::cout << "num_simplices = " << st.num_simplices() << ", is_empty = " << st.is_empty() << "\n";
  std::cout << "upper_bound_dimension() = " << st.upper_bound_dimension() << " (expected -1)\n";
  std::cout << "dimension()             = " << st.dimension() << " (expected -1)\n";
  std::cout << "st == Simplex_tree()    : " << (st == empty) << " (expected 1)\n";
  if (st.num_simplices() != 0) fail = true;  // would be another problem
  if (st.dimension() != -1) fail = true;
  if (!(st == empty)) fail = true;
  // same graph through the incremental route: no vertex, nothing to insert => the default constructed tree
  std::cout << (fail ? "FAIL" : "PASS") << std::endl;
  return fail ? 1 : 0;
}

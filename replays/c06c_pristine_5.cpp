// Pristine defect 5 (property C06, RU matrix with IDENTIFIER indexing): remove_maximal_cell(cellID) of a cell followed
// by at least two other cells corrupts the ID -> column dictionary of Id_to_index_overlay.
// The loop of Id_to_index_overlay::remove_maximal_cell exchanges idToIndex_[indexToID[curr]] and
// idToIndex_[indexToID[curr + 1]] after each vine swap, but indexToID is computed once before the loop and is not
// updated: from the second iteration on, indexToID[curr] is not the ID of the removed cell anymore.
//
// Filtration: a (isolated vertex, ID 0), v1 (ID 1), v2 (ID 2), e = {v1,v2} (ID 3). a is removed.
// Remaining: v1 v2 e, barcode [0,inf) [1,2]; columns of IDs 1, 2, 3 at positions 0, 1, 2 with dimensions 0, 0, 1.
#include <gudhi/Matrix.h>
#include <gudhi/persistence_matrix_options.h>
#include <iostream>
#include <set>
#include <tuple>
#include <vector>

using namespace Gudhi::persistence_matrix;

struct RU_opts : Default_options<Column_types::INTRUSIVE_SET, true> {
  static const Column_indexation_types column_indexation_type = Column_indexation_types::IDENTIFIER;
  static const bool has_vine_update = true;
  static const bool has_column_pairings = true;
  static const bool has_removable_columns = true;
};
using M = Matrix<RU_opts>;
using B = std::vector<unsigned int>;
using Bars = std::multiset<std::tuple<int, int, int> >;

Bars bars(M& m) {
  Bars b;
  for (const auto& bar : m.get_current_barcode())
    b.insert({bar.dim, (int)bar.birth, bar.death == M::get_null_value<unsigned int>() ? -1 : (int)bar.death});
  return b;
}
void print(const char* n, const Bars& b) {
  std::cout << n;
  for (auto& t : b) std::cout << " [" << std::get<0>(t) << ": " << std::get<1>(t) << ", " << std::get<2>(t) << "]";
  std::cout << "\n";
}

int main() {
  bool ok = true;
  M m;
  m.insert_boundary(0, B{});
  m.insert_boundary(1, B{});
  m.insert_boundary(2, B{});
  m.insert_boundary(3, B{1, 2});
  try {
    m.remove_maximal_cell(0);
    Bars expected = {{0, 0, -1}, {0, 1, 2}};
    print("after removal:", bars(m));
    print("expected     :", expected);
    if (bars(m) != expected) ok = false;
    int expectedDim[4] = {-1, 0, 0, 1};
    for (unsigned int id = 1; id <= 3; ++id) {
      int d = m.get_column_dimension(id);
      std::cout << "dimension of the cell of ID " << id << ": " << d << "\n";
      if (d != expectedDim[id]) ok = false;
    }
  } catch (const std::exception& e) {
    std::cout << "exception: " << e.what() << "\n";
    ok = false;
  }
  std::cout << (ok ? "PASS" : "FAIL") << std::endl;
  return ok ? 0 : 1;
}

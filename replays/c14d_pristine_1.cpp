// Pristine defect: persistence_on_rectangle_from_top_cells is wrong when n_rows == 2 or n_cols == 2
// (accepted by its interface: GUDHI_CHECK(n_rows >= 2 && n_cols >= 2)).
// Not related to any seeded change. Prints FAIL on the pristine worktree.
#include <gudhi/Persistence_on_rectangle.h>
#include <vector>
#include <tuple>
#include <algorithm>
#include <numeric>
#include <limits>
#include <random>
#include <iostream>
#include <iterator>

typedef double V;
typedef std::vector<std::tuple<int, V, V>> Dgm;
static const V INF = std::numeric_limits<V>::infinity();

// Reference: explicit cubical complex ((2R+1)x(2C+1) cells), lower-star filtration of the top cells,
// standard Z/2 column reduction. Only intervals of non-zero length.
Dgm reference(std::vector<V> const& in, int R, int C) {
  int H = 2 * R + 1, W = 2 * C + 1, N = H * W;
  std::vector<V> val(N, INF);
  std::vector<int> dim(N);
  for (int y = 0; y < H; ++y) for (int x = 0; x < W; ++x) dim[y * W + x] = (y & 1) + (x & 1);
  for (int r = 0; r < R; ++r) for (int c = 0; c < C; ++c) {
    V f = in[r * C + c];
    for (int dy = -1; dy <= 1; ++dy) for (int dx = -1; dx <= 1; ++dx) {
      int k = (2 * r + 1 + dy) * W + (2 * c + 1 + dx);
      if (f < val[k]) val[k] = f;
    }
  }
  std::vector<int> ord(N), pos(N);
  std::iota(ord.begin(), ord.end(), 0);
  std::stable_sort(ord.begin(), ord.end(), [&](int a, int b) {
    if (val[a] < val[b]) return true;
    if (val[b] < val[a]) return false;
    return dim[a] < dim[b];
  });
  for (int k = 0; k < N; ++k) pos[ord[k]] = k;
  std::vector<std::vector<int>> col(N);
  for (int k = 0; k < N; ++k) {
    int c = ord[k], y = c / W, x = c % W;
    auto& b = col[k];
    if (y & 1) { b.push_back(pos[(y - 1) * W + x]); b.push_back(pos[(y + 1) * W + x]); }
    if (x & 1) { b.push_back(pos[y * W + x - 1]); b.push_back(pos[y * W + x + 1]); }
    std::sort(b.begin(), b.end());
  }
  std::vector<int> lowinv(N, -1);
  std::vector<char> paired(N, 0);
  Dgm res;
  for (int k = 0; k < N; ++k) {
    auto& b = col[k];
    while (!b.empty() && lowinv[b.back()] >= 0) {
      auto& o = col[lowinv[b.back()]];
      std::vector<int> t;
      std::set_symmetric_difference(b.begin(), b.end(), o.begin(), o.end(), std::back_inserter(t));
      b.swap(t);
    }
    if (!b.empty()) {
      int l = b.back();
      lowinv[l] = k; paired[l] = paired[k] = 1;
      V bb = val[ord[l]], dd = val[ord[k]];
      if (bb < dd) res.emplace_back(dim[ord[l]], bb, dd);
    }
  }
  for (int k = 0; k < N; ++k) if (!paired[k]) res.emplace_back(dim[ord[k]], val[ord[k]], INF);
  std::sort(res.begin(), res.end());
  return res;
}

Dgm run_values(std::vector<V> const& in, unsigned R, unsigned C) {
  Dgm res;
  V g = Gudhi::cubical_complex::persistence_on_rectangle_from_top_cells<false>(in.data(), R, C,
      [&](V b, V d) { if (b < d) res.emplace_back(0, b, d); },
      [&](V b, V d) { if (b < d) res.emplace_back(1, b, d); });
  res.emplace_back(0, g, INF);
  std::sort(res.begin(), res.end());
  return res;
}
Dgm run_indices(std::vector<V> const& in, std::size_t R, std::size_t C) {
  Dgm res;
  std::size_t g = Gudhi::cubical_complex::persistence_on_rectangle_from_top_cells<true>(in.data(), R, C,
      [&](std::size_t b, std::size_t d) { if (in[b] < in[d]) res.emplace_back(0, in[b], in[d]); },
      [&](std::size_t b, std::size_t d) { if (in[b] < in[d]) res.emplace_back(1, in[b], in[d]); });
  res.emplace_back(0, in[g], INF);
  std::sort(res.begin(), res.end());
  return res;
}
static void print(const char* what, Dgm const& d) {
  std::cout << what;
  for (auto& t : d) std::cout << " (" << std::get<0>(t) << "," << std::get<1>(t) << "," << std::get<2>(t) << ")";
  std::cout << "\n";
}

int main() {
  int failures = 0;
  // Smallest case: 2x2, all four squares share the single interior vertex, the only interval is (min, inf).
  {
    std::vector<V> in{0, 1,
                      3, 2};
    Dgm ref = reference(in, 2, 2), a = run_values(in, 2, 2), b = run_indices(in, 2, 2);
    std::cout << "2x2 input 0 1 / 3 2\n";
    print("  expected   ", ref);
    print("  value mode ", a);
    print("  index mode ", b);
    if (a != ref || b != ref) ++failures;
  }
  {
    std::vector<V> in{4, 1, 0,
                      2, 3, 5};
    Dgm ref = reference(in, 2, 3), a = run_values(in, 2, 3), b = run_indices(in, 2, 3);
    std::cout << "2x3 input 4 1 0 / 2 3 5\n";
    print("  expected   ", ref);
    print("  value mode ", a);
    print("  index mode ", b);
    if (a != ref || b != ref) ++failures;
  }
  {
    std::vector<V> in{3, 4,
                      5, 2,
                      0, 1};
    Dgm ref = reference(in, 3, 2), a = run_values(in, 3, 2), b = run_indices(in, 3, 2);
    std::cout << "3x2 input 3 4 / 5 2 / 0 1\n";
    print("  expected   ", ref);
    print("  value mode ", a);
    print("  index mode ", b);
    if (a != ref || b != ref) ++failures;
  }
  // Sweep: random permutations, every shape with a side equal to 2, and (control) shapes with both sides >= 3.
  std::mt19937 gen(1);
  for (int pass = 0; pass < 2; ++pass) {
    long bad = 0, total = 0;
    for (int R = 2; R <= 6; ++R) for (int C = 2; C <= 6; ++C) {
      bool thin = (R == 2 || C == 2);
      if (thin != (pass == 0)) continue;
      for (int it = 0; it < 300; ++it) {
        std::vector<V> in(R * C);
        std::iota(in.begin(), in.end(), 0);
        std::shuffle(in.begin(), in.end(), gen);
        Dgm ref = reference(in, R, C);
        ++total;
        if (run_values(in, R, C) != ref || run_indices(in, R, C) != ref) ++bad;
      }
    }
    std::cout << (pass == 0 ? "shapes with a side of 2: " : "shapes with both sides >= 3: ") << bad << " mismatches out of " << total << "\n";
    if (bad) ++failures;
  }
  std::cout << (failures ? "FAIL" : "PASS") << std::endl;
  return failures ? 1 : 0;
}

// defect_4.cpp - Bitmap_cubical_complex (both base classes): an empty image, i.e. a shape with a direction of 0 top
// cells and (consistently) an empty vector of values, passes the size check of the constructor and then reads and writes
// out of bounds. EXPECTED OUTCOME OF THIS PROGRAM: a crash (SEGV reported by AddressSanitizer / UBSan "load of null
// pointer" at Bitmap_cubical_complex_base.h:682); a correct library would build a complex without top-dimensional cell
// (or throw std::invalid_argument as it does for the other size mismatches) and this program would print PASS.
//
// Mechanism: setup_bitmap_based_on_top_dimensional_cells_list (Bitmap_cubical_complex_base.h:661-686) checks
// prod(sizes) == cells.size() (0 == 0: fine) and then walks top_dimensional_cells_iterator_begin()..end().
// top_dimensional_cells_iterator_end() (l.399-406) and Top_dimensional_cells_iterator::operator++ (l.325-339) compute
// "sizes[i] - 1" on an unsigned: with sizes[i] == 0 this is 4294967295, so begin != end, the loop runs for ~2^32 steps,
// reads top_dimensional_cells[index] of an empty vector and writes get_cell_data(*it) past the bitmap. The periodic class
// does the same in construct_complex_based_on_top_dimensional_cells (..._periodic_boundary_conditions_base.h:312-322).
//
// Build: g++ -std=gnu++17 -O1 -g -fsanitize=address,undefined $(ls -d /tmp/seed/P03/src/*/include | sed 's/^/-I/') defect_4.cpp -o defect_4
#include <gudhi/Bitmap_cubical_complex.h>
#include <gudhi/Bitmap_cubical_complex_base.h>
#include <iostream>
#include <vector>

int main() {
  using namespace Gudhi::cubical_complex;
  std::vector<unsigned> shape = {0u, 2u};  // a 0 x 2 image: no pixel
  std::vector<double> pixels;              // consistently empty
  std::cout << "building a 0 x 2 cubical complex from 0 top-dimensional cells..." << std::endl;
  try {
    Bitmap_cubical_complex<Bitmap_cubical_complex_base<double>> cc(shape, pixels, true);
    std::size_t n = cc.filtration_simplex_range().size();
    std::cout << "built, " << n << " cells in the filtration\nPASS" << std::endl;
  } catch (std::exception const& e) {
    std::cout << "exception: " << e.what() << "\nPASS (rejected cleanly)" << std::endl;
  }
  return 0;
}

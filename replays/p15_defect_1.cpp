// defect_1.cpp - Simplex_tree::deserialize reads past the end of a buffer that is shorter than its content announces.
//
// Property C15: "a buffer of the wrong length is refused with an exception instead of being read past its end".
// Simplex_tree::deserialize(buffer, buffer_size) documents
//     @exception std::invalid_argument In case the deserialization does not finish at the correct buffer_size.
// but buffer_size is only compared with the read position AFTER everything has been read: rec_deserialize()
// (Simplex_tree.h:2839-2877) follows the counts found in the buffer and calls deserialize_value_from_char_buffer()
// (memcpy) without ever looking at buffer_size. So a truncated buffer - every length from 1 to size-1 - is read past
// its end, the tree is filled with what lies behind the buffer, and only then the exception is thrown (or not at all,
// or std::length_error / std::bad_alloc from reserve(), depending on the bytes found behind the buffer).
//
// Two demonstrations:
//  (a) without sanitizer: the truncated buffer is followed in the same array by a "secret" region holding a valid
//      continuation; deserialize(buf, truncated_size) consumes the secret bytes (the tree contains the vertices that
//      only exist there) - it looked past the announced end.
//  (b) with -fsanitize=address: the truncated buffer is an exact-size heap block: heap-buffer-overflow READ in
//      deserialize_trivial (serialization_utils.h:40). Run with argument "asan" to execute (b).
//
// Build: g++ -std=gnu++17 -O1 -g -fsanitize=address,undefined $(ls -d /repo/src/*/include | sed 's/^/-I/') \
//        defect_1.cpp -o defect_1 -ltbb
// Run:   ./defect_1          -> prints FAIL (returns 1) with or without sanitizers
//        ./defect_1 asan     -> AddressSanitizer: heap-buffer-overflow (READ) when built with -fsanitize=address

#include <gudhi/Simplex_tree.h>

#include <cstring>
#include <iostream>
#include <memory>
#include <vector>

int main(int argc, char** argv) {
  using ST = Gudhi::Simplex_tree<>;
  ST st;
  st.insert_simplex_and_subfaces({0, 1, 2}, 1.5);
  st.insert_simplex_and_subfaces({2, 3}, 2.5);
  const std::size_t size = st.get_serialization_size();
  std::vector<char> full(size);
  st.serialize(full.data(), size);
  std::cout << "serialized size = " << size << " bytes, " << st.num_simplices() << " simplices\n";

  bool fail = false;

  // (a) the library looks at bytes behind the announced end of the buffer
  {
    const std::size_t cut = 20;  // announced length: the first 20 bytes only (count + vertex 0 + part of the next)
    ST t;
    bool thrown = false;
    try {
      t.deserialize(full.data(), cut);  // only bytes [0, cut) belong to the buffer
    } catch (const std::invalid_argument&) {
      thrown = true;
    }
    std::cout << "(a) deserialize(buffer, " << cut << "): exception " << (thrown ? "thrown" : "NOT thrown")
              << ", tree now holds " << t.num_simplices() << " simplices";
    std::cout << " (expected: exception before reading byte " << cut << ", at most 1 complete vertex readable)\n";
    // vertex 3 is stored at offset 4 + 3*12 = 40 > cut: it can only be known by reading past the end
    if (t.find({3}) != t.null_simplex()) {
      std::cout << "    vertex 3 (stored at byte offset 40, behind the announced end " << cut
                << ") was read into the tree -> read past the end\n";
      fail = true;
    }
  }

  // (b) exact-size heap block: AddressSanitizer reports the out-of-bounds read
  if (argc > 1 && std::string(argv[1]) == "asan") {
    for (std::size_t len = size - 1; len >= 1; --len) {
      std::unique_ptr<char[]> buf(new char[len]);
      std::memcpy(buf.get(), full.data(), len);
      ST t;
      try {
        t.deserialize(buf.get(), len);  // heap-buffer-overflow READ under ASan
        std::cout << "(b) length " << len << ": no exception\n";
        fail = true;
      } catch (const std::invalid_argument&) {
      }
    }
  }

  std::cout << (fail ? "FAIL" : "PASS") << std::endl;
  return fail ? 1 : 0;
}

// unsure_1.cpp - chain matrix, vine_swap(columnIndex1, columnIndex2) called with the cell of the LATER position first.
// The documentation says "columnIndex1: MatIdx of the first cell, columnIndex2: MatIdx of the second cell. It is
// assumed that the PosIdx of both only differs by one" and describes the return value symmetrically (max(pos1, pos2)),
// which reads as if both orders were accepted. With (later, earlier) the matrix is left inconsistent: the column of
// pivot 5 keeps cell 3 although 3 now comes after 5, and removing the last cell is refused (debug mode exception, stale
// row entry otherwise). With (earlier, later) everything is fine. UNSURE: "first"/"second" may be meant as the order in
// the filtration.
// Build as the defects; prints what happens for both orders.
#include <gudhi/Matrix.h>
#include <gudhi/persistence_matrix_options.h>
#include <iostream>
#include <vector>
using namespace Gudhi::persistence_matrix;
struct Opt : Default_options<Column_types::INTRUSIVE_SET, true> {
  static const bool is_of_boundary_type = false;
  static const bool has_column_pairings = true;
  static const bool has_vine_update = true;
  static const bool has_removable_columns = true;
  static const bool has_map_column_container = true;
  static const bool has_row_access = true;
  static const bool has_removable_rows = true;
};
int main() {
  typedef std::vector<unsigned> C;
  for (int order = 0; order < 2; ++order) {
    Matrix<Opt> m;
    m.insert_boundary(3, C{}, 0);
    m.insert_boundary(5, C{}, 0);
    m.insert_boundary(8, C{3, 5});
    m.remove_last();  // the edge
    unsigned i3 = m.get_column_with_pivot(3), i5 = m.get_column_with_pivot(5);
    try {
      if (order == 0) m.vine_swap(i3, i5); else m.vine_swap(i5, i3);
      m.remove_last();
      std::cout << (order == 0 ? "vine_swap(earlier, later)" : "vine_swap(later, earlier)") << " then remove_last: ok, "
                << m.get_number_of_columns() << " column left\n";
    } catch (const std::exception& e) {
      std::cout << (order == 0 ? "vine_swap(earlier, later)" : "vine_swap(later, earlier)") << " then remove_last: exception "
                << e.what() << "\n";
    }
  }
}

// fuzz_st_vec.cpp - copies / moves / serialisation of simplex trees whose Filtration_value owns memory
// (Gudhi::Vector_filtration_value of the test suite, a std::vector<int> with its own (de)serialisation functions).
// Random trees (3 option sets of test_vector_filtration_simplex_tree.h), random histories of insertions / removals /
// prunings, and after each step: copy construction, copy assignment over a non empty tree, move construction, move
// assignment, swap, serialize + deserialize into a new tree, all compared with operator== and simplex by simplex with
// the source; the copies are then modified / destroyed and the source checked again (brute force model = the list of
// (simplex, value) pairs recorded before).
//
// Build: g++ -std=gnu++17 -O1 -g -fsanitize=address,undefined $(ls -d /repo/src/*/include | sed 's/^/-I/') \
//        -I/repo/src/Simplex_tree/test fuzz_st_vec.cpp -o fuzz_st_vec -ltbb
// RESULT: 3 option sets x 300 seeds x 60 steps: no difference, no sanitizer report.
#include <cstring>
#include "test_vector_filtration_simplex_tree.h"
#include <iostream>
#include <map>
#include <memory>
#include <random>

using namespace Gudhi;
typedef std::vector<int> S;
typedef std::map<S, std::vector<int>> Snap;

template <class ST> Snap snap(const ST& t) {
  Snap r;
  for (auto sh : t.complex_simplex_range()) {
    S s;
    for (auto v : t.simplex_vertex_range(sh)) s.push_back(v);
    std::reverse(s.begin(), s.end());
    r[s] = t.filtration(sh);
  }
  return r;
}
#define CHECK(c) do { if (!(c)) { std::cout << "FAIL line " << __LINE__ << " seed " << seed << ": " #c << std::endl; return false; } } while (0)

template <class O> bool run(unsigned seed) {
  using ST = Simplex_tree<O>;
  std::mt19937 rng(seed);
  auto rnd = [&](int n) { return (int)(rng() % n); };
  std::unique_ptr<ST> t(new ST());
  for (int step = 0; step < 60; ++step) {
    int op = rnd(6);
    if (op <= 2) {
      int d = rnd(4);
      std::vector<typename ST::Vertex_handle> s;
      int n = (int)t->num_vertices();
      for (int i = 0; i <= d; ++i) s.push_back(O::contiguous_vertices ? rnd(n + 1) : rnd(7));
      std::sort(s.begin(), s.end());
      s.erase(std::unique(s.begin(), s.end()), s.end());
      if (O::contiguous_vertices) {  // at most one new vertex, the next one
        int cnt = 0;
        for (auto v : s) cnt += v >= n;
        if (cnt > 1) continue;
      }
      t->insert_simplex_and_subfaces(s, Vector_filtration_value{rnd(5), rnd(5)});
    } else if (op == 3 && !O::contiguous_vertices) {
      t->prune_above_dimension(rnd(3));
    } else if (op == 4 && t->num_simplices() > 0) {
      // remove one maximal simplex
      for (auto sh : t->complex_simplex_range())
        if (!t->has_children(sh) && t->dimension(sh) > 0) {
          bool maximal = true;
          for (auto c : t->cofaces_simplex_range(sh, 1)) { (void)c; maximal = false; }
          if (maximal) { t->remove_maximal_simplex(sh); break; }
        }
    } else if (op == 5 && rnd(5) == 0) {
      t->clear();
    }
    Snap ref = snap(*t);
    // copy construction
    std::unique_ptr<ST> c(new ST(*t));
    CHECK(*c == *t); CHECK(snap(*c) == ref);
    // copy assignment over a non empty tree
    ST a; a.insert_simplex_and_subfaces({0, 1, 2}, Vector_filtration_value{7, 7, 7});
    a = *t;
    CHECK(a == *t); CHECK(snap(a) == ref);
    // serialisation
    std::size_t sz = t->get_serialization_size();
    std::unique_ptr<char[]> buf(new char[sz]);
    t->serialize(buf.get(), sz);
    ST d; d.deserialize(buf.get(), sz);
    CHECK(d == *t); CHECK(snap(d) == ref);
    bool thrown = false;
    try { ST e; std::unique_ptr<char[]> big(new char[sz + 4]()); std::memcpy(big.get(), buf.get(), sz); e.deserialize(big.get(), sz + 4); } catch (const std::invalid_argument&) { thrown = true; }
    CHECK(thrown);
    // move construction: source empty, usable
    ST m(std::move(*c));
    CHECK(snap(m) == ref); CHECK(c->num_simplices() == 0); CHECK(c->dimension() == -1);
    c->insert_simplex_and_subfaces({0, 1}, Vector_filtration_value{1, 2});
    CHECK(c->num_simplices() == 3); CHECK(snap(m) == ref);
    // move assignment
    a = std::move(m);
    CHECK(snap(a) == ref); CHECK(m.num_simplices() == 0);
    // swap
    std::swap(a, *c);
    CHECK(snap(*c) == ref); CHECK(a.num_simplices() == 3);
    // independence: change and destroy the copies
    if (!ref.empty()) {
      auto sh = c->find(ref.begin()->first);
      c->assign_filtration(sh, Vector_filtration_value{-9, -9});
      d.assign_filtration(d.find(ref.begin()->first), Vector_filtration_value{-8});
    }
    c.reset();
    CHECK(snap(*t) == ref);
    // destroy the source, keep a copy
    std::unique_ptr<ST> k(new ST(*t));
    t.reset();
    CHECK(snap(*k) == ref);
    t = std::move(k);
  }
  return true;
}
int main(int argc, char** argv) {
  int n = argc > 1 ? atoi(argv[1]) : 300;
  int bad = 0;
  for (int s = 1; s <= n; ++s) {
    bad += !run<Simplex_tree_options_custom_fil_values_default>(s);
    bad += !run<Simplex_tree_options_custom_fil_values_fast_persistence>(s);
    bad += !run<Simplex_tree_options_custom_fil_values_full_featured>(s);
  }
  std::cout << (bad ? "FAIL" : "PASS") << std::endl;
  return bad != 0;
}

// Differential fuzzer for property C06, chain matrices with vine updates WITHOUT stored barcode (comparators given
// by the user). Harness: fuzz_vine.h. The comparators are computed from the model (reference pairing of the current
// filtration) and read their arguments as MatIdx column indices of a CONTAINER indexed matrix, which is what the
// library passes (the documentation says PosIdx: defect 6; FUZZ_CMPPOS=1 reads them as documented and fails at once;
// with POSITION / IDENTIFIER indexing - PART 1 - only the documented reading exists and it fails).
// Left out on purpose (known defect, not reported again): transpositions touching a pair whose identifiers are in the
// opposite order of their positions (the sign of a paired chain is read from the identifiers), and insertions when
// the identifiers do not increase along the filtration. remove_last() is replaced by remove_maximal_cell(id, {})
// (defect 7); FUZZ_NB_REMOVELAST=1 uses remove_last().
//   g++ -std=gnu++17 -O1 -g -fsanitize=address,undefined -I<gudhi>/src/Persistence_matrix/include
//       -I<gudhi>/src/common/include [-DPART=1] fuzz_chain_nobarcode.cpp -o fuzz_nb ; ./fuzz_nb <seed> <cases> <ops>
// Result, PART 0 (CONTAINER, 4 option sets below): 1500 cases x 100 operations each, sanitizers on: no failure.
#include "q06_fuzz_vine.h"

#ifndef PART
#define PART 0
#endif

int main(int argc, char** argv) {
  unsigned seed = argc > 1 ? atoi(argv[1]) : 1;
  int nc = argc > 2 ? atoi(argv[2]) : 200;
  int nops = argc > 3 ? atoi(argv[3]) : 80;
  int bad = 0;
  //            C, IDX, BND, BAR, REMCOL, MAPC, RA, DIM, REP
#if PART == 0
  bad += run_config<Opt<Column_types::INTRUSIVE_SET, IDX_CONTAINER, false, false, true, true, 0, true, false>>(
      "chain/nobar/C/iset", seed, nc, nops, 16, 2);
  bad += run_config<Opt<Column_types::LIST, IDX_CONTAINER, false, false, false, false, 2, false, false>>(
      "chain/nobar/C/list/norem/ra2", seed, nc, nops, 16, 2);
  bad += run_config<Opt<Column_types::VECTOR, IDX_CONTAINER, false, false, true, true, 3, true, false>>(
      "chain/nobar/C/vector/ra3", seed, nc, nops, 16, 2);
  bad += run_config<Opt<Column_types::HEAP, IDX_CONTAINER, false, false, true, true, 0, false, false>>(
      "chain/nobar/C/heap", seed, nc, nops, 16, 2);
#else
  bad += run_config<Opt<Column_types::SET, IDX_POSITION, false, false, true, true, 2, false, false>>(
      "chain/nobar/P", seed, nc, nops, 16, 2);
  bad += run_config<Opt<Column_types::LIST, IDX_IDENTIFIER, false, false, true, true, 3, false, false>>(
      "chain/nobar/I", seed, nc, nops, 16, 2);
#endif
  return bad != 0;
}

// fuzz_cubical.cpp - randomized differential test of the GUDHI cubical complexes (property C13).
//
// Reference model (written from scratch, shares no code with the library): a cell of a grid with s_i top cells in
// direction i is a counter vector c, c_i in [0, 2 s_i] (non periodic) or [0, 2 s_i - 1] (periodic), position =
// sum c_i * prod_{j<i} N_j. Faces: c_i odd -> c_i - 1 and c_i + 1 (mod N_i when periodic), sign (-1)^{#odd c_j, j<i}.
// Values: min over the top cells containing the cell / max over its vertices. Persistence: plain column reduction
// over Z_p of the reference boundary matrix in the documented order (value, dimension, position).
//
// What is compared, for every random case:
//   sizes / dimension / per-cell dimension / per-cell value
//   get_boundary_of_a_cell (set = geometric faces, size 2*dim, d.d = 0 with signs alternating along the enumeration)
//   get_coboundary_of_a_cell (= converse of the reference boundary, no duplicates)
//   compute_incidence_between_cells (+-1, d.d = 0; whether it equals the documented formula is counted separately)
//   filtration_simplex_range (permutation, documented order, faces first), simplex(k), key/assign_key
//   top_dimensional_cells_range / vertices_range (order = input order), all_cells_range, endpoints
//   get_top_dimensional_coface_of_a_cell / get_vertex_of_a_cell
//   skeleton_simplex_range(d)
//   Persistent_cohomology over Z_2, Z_3, Z_5, Z_11 against the reference reduction
//   the same complex read from a Perseus file (top cell input), a copy of the complex, and the periodic class with an
//   all-false mask against the non periodic class
//
// Usage: fuzz_cubical <seed> <ncases> [mode]   mode 0: quantifier of the property (periodic sides >= 3, sides >= 1)
//                                              mode 1: also periodic sides of length 1 and 2 and 1-vertex sides
//                                              mode 2: dimension 1..9, up to 60000 cells, long thin shapes, structural
//                                                      checks only (no persistence above 3000 cells)
// See the end of the file for the record of what passed.
#include <gudhi/Bitmap_cubical_complex.h>
#include <gudhi/Bitmap_cubical_complex_periodic_boundary_conditions_base.h>
#include <gudhi/Persistent_cohomology.h>

#include <algorithm>
#include <cmath>
#include <cstdio>
#include <fstream>
#include <iostream>
#include <map>
#include <random>
#include <set>
#include <sstream>
#include <string>
#include <tuple>
#include <vector>
#include <unistd.h>

using std::size_t;
namespace cc = Gudhi::cubical_complex;

static std::map<std::string, int> failures;
static std::string current_cfg;
static void fail(const std::string& cat, const std::string& msg) {
  int& n = failures[cat];
  ++n;
  if (n <= 3 && cat.find("KNOWN") == std::string::npos) std::cout << "FAIL[" << cat << "] " << current_cfg << " : " << msg << std::endl;
}

template <class T>
struct Ref {
  int D;
  std::vector<unsigned> s;  // number of top cells per direction
  std::vector<bool> per;
  std::vector<size_t> N, mult;
  size_t total;
  std::vector<T> val;

  void setup(const std::vector<unsigned>& s_, const std::vector<bool>& per_) {
    s = s_;
    per = per_;
    D = s.size();
    N.resize(D);
    mult.resize(D);
    total = 1;
    for (int i = 0; i < D; ++i) {
      N[i] = per[i] ? 2 * (size_t)s[i] : 2 * (size_t)s[i] + 1;
      mult[i] = total;
      total *= N[i];
    }
  }
  std::vector<size_t> counter(size_t pos) const {
    std::vector<size_t> c(D);
    for (int i = 0; i < D; ++i) {
      c[i] = pos % N[i];
      pos /= N[i];
    }
    return c;
  }
  size_t position(const std::vector<size_t>& c) const {
    size_t p = 0;
    for (int i = 0; i < D; ++i) p += c[i] * mult[i];
    return p;
  }
  int dim(size_t pos) const {
    auto c = counter(pos);
    int d = 0;
    for (auto x : c) d += x % 2;
    return d;
  }
  // signed geometric boundary
  std::vector<std::pair<size_t, int>> boundary(size_t pos) const {
    auto c = counter(pos);
    std::vector<std::pair<size_t, int>> b;
    int sign = 1;
    for (int i = 0; i < D; ++i) {
      if (c[i] % 2 == 0) continue;
      auto lo = c, hi = c;
      lo[i] = c[i] - 1;
      hi[i] = (c[i] + 1) % N[i];  // for a non periodic direction c_i + 1 <= 2 s_i < N_i
      b.emplace_back(position(hi), sign);
      b.emplace_back(position(lo), -sign);
      sign = -sign;
    }
    return b;
  }
  // values
  void values_from_top(const std::vector<T>& in) {
    val.assign(total, std::numeric_limits<T>::infinity());
    // enumerate top cells in Fortran order
    size_t ntop = 1;
    for (int i = 0; i < D; ++i) ntop *= s[i];
    for (size_t idx = 0; idx < ntop; ++idx) {
      size_t r = idx;
      std::vector<size_t> x(D);
      for (int i = 0; i < D; ++i) {
        x[i] = r % s[i];
        r /= s[i];
      }
      // all 3^D faces
      size_t nf = 1;
      for (int i = 0; i < D; ++i) nf *= 3;
      for (size_t f = 0; f < nf; ++f) {
        size_t q = f;
        std::vector<size_t> c(D);
        for (int i = 0; i < D; ++i) {
          int off = (int)(q % 3) - 1;
          q /= 3;
          c[i] = (2 * x[i] + 1 + N[i] + off) % N[i];
        }
        size_t p = position(c);
        if (in[idx] < val[p]) val[p] = in[idx];
      }
    }
  }
  size_t nvert(int i) const { return per[i] ? s[i] : s[i] + 1; }
  void values_from_vertices(const std::vector<T>& in) {
    val.assign(total, -std::numeric_limits<T>::infinity());
    for (size_t p = 0; p < total; ++p) {
      auto c = counter(p);
      // vertices of the cell
      std::vector<std::vector<size_t>> choices(D);
      for (int i = 0; i < D; ++i) {
        if (c[i] % 2 == 0)
          choices[i] = {c[i] / 2};
        else
          choices[i] = {(c[i] - 1) / 2, ((c[i] + 1) % N[i]) / 2};
      }
      std::vector<size_t> pick(D, 0);
      T m = -std::numeric_limits<T>::infinity();
      while (true) {
        size_t idx = 0, mm = 1;
        for (int i = 0; i < D; ++i) {
          idx += choices[i][pick[i]] * mm;
          mm *= nvert(i);
        }
        if (in[idx] > m) m = in[idx];
        int i = 0;
        while (i < D && ++pick[i] == choices[i].size()) pick[i++] = 0;
        if (i == D) break;
      }
      val[p] = m;
    }
  }
  bool before(size_t a, size_t b) const {
    if (val[a] != val[b]) return val[a] < val[b];
    int da = dim(a), db = dim(b);
    if (da != db) return da < db;
    return a < b;
  }
};

// (dimension, birth, death) of the intervals that Persistent_cohomology keeps with min_interval_length = 0
template <class T>
using Diagram = std::multiset<std::tuple<int, T, T>>;

template <class T>
Diagram<T> reference_persistence(const Ref<T>& R, int p) {
  std::vector<size_t> order(R.total);
  for (size_t i = 0; i < R.total; ++i) order[i] = i;
  std::sort(order.begin(), order.end(), [&](size_t a, size_t b) { return R.before(a, b); });
  std::vector<size_t> rank(R.total);
  for (size_t i = 0; i < R.total; ++i) rank[order[i]] = i;
  auto inv = [&](int a) {
    a %= p;
    if (a < 0) a += p;
    for (int x = 1; x < p; ++x)
      if ((a * x) % p == 1) return x;
    return 0;
  };
  std::vector<std::map<size_t, int>> col(R.total);
  std::vector<long> pivot_of_row(R.total, -1);
  std::vector<char> paired(R.total, 0);
  Diagram<T> dgm;
  for (size_t j = 0; j < R.total; ++j) {
    auto& c = col[j];
    for (auto& fs : R.boundary(order[j])) {
      int& x = c[rank[fs.first]];
      x = ((x + fs.second) % p + p) % p;
    }
    for (auto it = c.begin(); it != c.end();) it = (it->second == 0) ? c.erase(it) : std::next(it);
    while (!c.empty()) {
      size_t low = c.rbegin()->first;
      if (pivot_of_row[low] < 0) break;
      auto& o = col[pivot_of_row[low]];
      int f = (c.rbegin()->second * inv(o.rbegin()->second)) % p;
      for (auto& e : o) {
        int& x = c[e.first];
        x = ((x - f * e.second) % p + p) % p;
        if (x == 0) c.erase(e.first);
      }
    }
    if (!c.empty()) {
      size_t low = c.rbegin()->first;
      pivot_of_row[low] = j;
      paired[low] = paired[j] = 1;
      T b = R.val[order[low]], d = R.val[order[j]];
      if (d - b > 0) dgm.emplace(R.dim(order[low]), b, d);
    }
  }
  for (size_t j = 0; j < R.total; ++j)
    if (!paired[j]) dgm.emplace(R.dim(order[j]), R.val[order[j]], std::numeric_limits<T>::infinity());
  return dgm;
}

template <class Cpx, class T>
Diagram<T> gudhi_persistence(Cpx& C, int p) {
  typedef Gudhi::persistent_cohomology::Field_Zp Field_Zp;
  Gudhi::persistent_cohomology::Persistent_cohomology<Cpx, Field_Zp> pcoh(C, true);
  pcoh.init_coefficients(p);
  pcoh.compute_persistent_cohomology(0);
  Diagram<T> dgm;
  for (auto& pr : pcoh.get_persistent_pairs()) {
    auto b = std::get<0>(pr), d = std::get<1>(pr);
    dgm.emplace((int)C.dimension(b), C.filtration(b), C.filtration(d));
  }
  return dgm;
}

template <class T>
std::string dgm_str(const Diagram<T>& d) {
  std::ostringstream o;
  for (auto& t : d) o << "(" << std::get<0>(t) << "," << std::get<1>(t) << "," << std::get<2>(t) << ")";
  return o.str();
}

// all structural checks of one complex against the reference
template <class Cpx, class T>
void check_complex(Cpx& C, const Ref<T>& R, bool top_input, const std::vector<T>& input, bool strict,
                   const std::string& tag) {
  if (C.num_simplices() != R.total || C.size() != R.total || C.number_cells() != R.total) {
    fail(tag + "size", "num_simplices " + std::to_string(C.num_simplices()) + " expected " + std::to_string(R.total));
    return;
  }
  if ((int)C.dimension() != R.D) fail(tag + "dimension", "");
  // all_cells_range
  {
    size_t k = 0;
    for (auto c : C.all_cells_range()) {
      if (c != k) fail(tag + "all_cells_range", "");
      ++k;
    }
    if (k != R.total) fail(tag + "all_cells_range", "count");
  }
  // reference coboundary
  std::vector<std::vector<size_t>> rcob(R.total);
  for (size_t p = 0; p < R.total; ++p)
    for (auto& f : R.boundary(p)) rcob[f.first].push_back(p);

  for (size_t p = 0; p < R.total; ++p) {
    if ((int)C.dimension(p) != R.dim(p) || (int)C.get_dimension_of_a_cell(p) != R.dim(p))
      fail(tag + "cell_dimension", "cell " + std::to_string(p));
    T v = C.filtration(p);
    if (!(v == R.val[p])) {
      std::ostringstream o;
      o << "cell " << p << " value " << v << " expected " << R.val[p];
      fail(tag + "value", o.str());
    }
    if (!(C.get_cell_data(p) == R.val[p])) fail(tag + "get_cell_data", "");
    // boundary
    std::vector<size_t> bd = C.get_boundary_of_a_cell(p);
    auto rb = R.boundary(p);
    {
      std::multiset<size_t> a(bd.begin(), bd.end()), b;
      for (auto& f : rb) b.insert(f.first);
      if (a != b) fail(tag + "boundary_set", "cell " + std::to_string(p));
      auto bsr = C.boundary_simplex_range(p);
      if (std::vector<size_t>(bsr.begin(), bsr.end()) != bd) fail(tag + "boundary_simplex_range", "");
      auto br = C.boundary_range(p);
      if (std::vector<size_t>(br.begin(), br.end()) != bd) fail(tag + "boundary_range", "");
    }
    // d.d = 0 with alternating signs
    {
      std::map<size_t, int> acc;
      int s1 = 1;
      for (auto f : bd) {
        int s2 = 1;
        for (auto g : C.get_boundary_of_a_cell(f)) {
          acc[g] += s1 * s2;
          s2 = -s2;
        }
        s1 = -s1;
      }
      for (auto& e : acc)
        if (e.second != 0) {
          fail(tag + "dd_alternating", "cell " + std::to_string(p));
          break;
        }
    }
    // the alternating signs are the reference signs up to one sign per cell (a change of orientation of the cell)
    if (strict && !bd.empty()) {
      std::map<size_t, int> rs;
      for (auto& f : rb) rs[f.first] = f.second;
      int eps = rs[bd[0]];
      int s1 = 1;
      for (auto f : bd) {
        if (rs[f] * s1 != eps) {
          fail(tag + "boundary_orientation(info)", "cell " + std::to_string(p));
          break;
        }
        s1 = -s1;
      }
    }
    // coboundary
    {
      std::vector<size_t> cb = C.get_coboundary_of_a_cell(p);
      std::multiset<size_t> a(cb.begin(), cb.end()), b(rcob[p].begin(), rcob[p].end());
      if (a != b) fail(tag + "coboundary", "cell " + std::to_string(p));
      auto cr = C.coboundary_range(p);
      if (std::vector<size_t>(cr.begin(), cr.end()) != cb) fail(tag + "coboundary_range", "");
    }
    // incidences
    if (strict) {
      std::map<size_t, int> acc;
      for (auto& f : rb) {
        int i1 = C.compute_incidence_between_cells(p, f.first);
        if (i1 != 1 && i1 != -1) fail(tag + "incidence_range", "");
        if (i1 != f.second) fail(tag + "incidence_vs_documented_formula", "coface " + std::to_string(p) + " face " +
                                 std::to_string(f.first) + " got " + std::to_string(i1) + " documented " +
                                 std::to_string(f.second));
        for (auto& g : R.boundary(f.first)) acc[g.first] += i1 * C.compute_incidence_between_cells(f.first, g.first);
      }
      for (auto& e : acc)
        if (e.second != 0) {
          fail(tag + "dd_incidence", "cell " + std::to_string(p));
          break;
        }
    }
    // endpoints
    if (R.dim(p) == 1) {
      auto e = C.endpoints(p);
      if (bd.size() != 2 || e.first != bd[0] || e.second != bd[1]) fail(tag + "endpoints", "");
    }
    // top coface / vertex
    if (top_input) {
      size_t t = C.get_top_dimensional_coface_of_a_cell(p);
      bool ok = t < R.total && R.dim(t) == R.D && R.val[t] == R.val[p];
      if (ok) {
        auto ct = R.counter(t), cp = R.counter(p);
        for (int i = 0; i < R.D; ++i) {
          size_t d = (ct[i] + R.N[i] - cp[i]) % R.N[i];
          bool near = (d == 0 || d == 1 || d == R.N[i] - 1);
          if (!R.per[i]) near = (ct[i] == cp[i] || ct[i] + 1 == cp[i] || ct[i] == cp[i] + 1);
          if (!near) ok = false;
        }
      }
      if (!ok) fail(tag + "top_coface", "cell " + std::to_string(p) + " -> " + std::to_string(t));
    } else {
      size_t t = C.get_vertex_of_a_cell(p);
      bool ok = t < R.total && R.dim(t) == 0 && R.val[t] == R.val[p];
      if (ok) {
        auto ct = R.counter(t), cp = R.counter(p);
        for (int i = 0; i < R.D; ++i) {
          size_t d = (ct[i] + R.N[i] - cp[i]) % R.N[i];
          bool near = (d == 0 || d == 1 || d == R.N[i] - 1);
          if (!R.per[i]) near = (ct[i] == cp[i] || ct[i] + 1 == cp[i] || ct[i] == cp[i] + 1);
          if (!near) ok = false;
        }
      }
      if (!ok) fail(tag + "vertex_of_cell", "cell " + std::to_string(p) + " -> " + std::to_string(t));
    }
  }
  // iterators over top cells / vertices: same order as the input
  {
    std::vector<size_t> tops;
    for (auto t : C.top_dimensional_cells_range()) {
      tops.push_back(t);
      if (tops.size() > R.total) break;
    }
    std::vector<size_t> expected;
    for (size_t p = 0; p < R.total; ++p)
      if (R.dim(p) == R.D) expected.push_back(p);
    // positions grow with the Fortran index, so "sorted" = input order
    if (tops != expected) fail(tag + "top_dimensional_cells_range", "");
    if (top_input)
      for (size_t k = 0; k < tops.size() && k < input.size(); ++k)
        if (!(C.filtration(tops[k]) == input[k])) fail(tag + "top_cells_order", "");
    std::vector<size_t> verts;
    for (auto t : C.vertices_range()) {
      verts.push_back(t);
      if (verts.size() > R.total) break;
    }
    expected.clear();
    for (size_t p = 0; p < R.total; ++p)
      if (R.dim(p) == 0) expected.push_back(p);
    if (verts != expected) fail(tag + "vertices_range", std::to_string(verts.size()) + " vs " + std::to_string(expected.size()));
    if (!top_input)
      for (size_t k = 0; k < verts.size() && k < input.size(); ++k)
        if (!(C.filtration(verts[k]) == input[k])) fail(tag + "vertices_order", "");
  }
  // skeleton ranges
  for (int d = 0; d <= R.D + 1; ++d) {
    std::vector<size_t> got, le, eq;
    for (auto c : C.skeleton_simplex_range(d)) got.push_back(c);
    for (size_t p = 0; p < R.total; ++p) {
      if (R.dim(p) <= d) le.push_back(p);
      if (R.dim(p) == d) eq.push_back(p);
    }
    std::sort(got.begin(), got.end());
    if (got != le) fail(got == eq ? "KNOWN(defect 2) skeleton_simplex_range(d) has only the cells of dimension d" : tag + "skeleton_range", "d=" + std::to_string(d));
  }
  // filtration order
  {
    auto const& fr = C.filtration_simplex_range();
    std::vector<size_t> order(fr.begin(), fr.end());
    std::vector<size_t> expected(R.total);
    for (size_t i = 0; i < R.total; ++i) expected[i] = i;
    std::sort(expected.begin(), expected.end(), [&](size_t a, size_t b) { return R.before(a, b); });
    if (order != expected) fail(tag + "filtration_order_documented", "");
    std::vector<size_t> rank(R.total, (size_t)-1);
    bool perm = order.size() == R.total;
    for (size_t k = 0; perm && k < order.size(); ++k) {
      if (order[k] >= R.total || rank[order[k]] != (size_t)-1) perm = false; else rank[order[k]] = k;
    }
    if (!perm) fail(tag + "filtration_permutation", "");
    else {
      for (size_t k = 0; k + 1 < order.size(); ++k)
        if (R.val[order[k + 1]] < R.val[order[k]]) { fail(tag + "filtration_monotone", ""); break; }
      for (size_t p = 0; p < R.total; ++p)
        for (auto& f : R.boundary(p))
          if (rank[f.first] >= rank[p]) { fail(tag + "faces_first", ""); p = R.total - 1; break; }
      for (size_t k = 0; k < order.size(); ++k)
        if (C.simplex(k) != order[k]) { fail(tag + "simplex(k)", ""); break; }
      for (size_t k = 0; k < order.size(); ++k) C.assign_key(order[k], k);
      for (size_t k = 0; k < order.size(); ++k)
        if (C.key(order[k]) != k) { fail(tag + "key", ""); break; }
    }
  }
  if (!(C.filtration(C.null_simplex()) == std::numeric_limits<T>::infinity())) fail(tag + "null_filtration", "");
}

template <class Cpx, class T>
void check_persistence(Cpx& C, const Ref<T>& R, const std::string& tag) {
  if (R.total > 3000) return;  // mode 2: the reference reduction is too slow
  for (int p : {2, 3, 5, 11}) {
    auto a = gudhi_persistence<Cpx, T>(C, p);
    auto b = reference_persistence(R, p);
    if (a != b) fail(tag + "persistence_Z" + std::to_string(p), "gudhi " + dgm_str(a) + " reference " + dgm_str(b));
  }
}

template <class T>
std::string write_perseus(const Ref<T>& R, const std::vector<T>& in, bool negative_for_periodic, std::mt19937& rng,
                          int id) {
  std::string name = "./tmp_perseus_" + std::to_string((long)getpid()) + "_" + std::to_string(id) + ".txt";
  std::ofstream f(name);
  f << R.D << "\n";
  for (int i = 0; i < R.D; ++i) f << ((negative_for_periodic && R.per[i]) ? -(int)R.s[i] : (int)R.s[i]) << "\n";
  char buf[64];
  for (size_t k = 0; k < in.size(); ++k) {
    if (std::isinf(in[k]))
      f << (in[k] > 0 ? "inf" : "-inf");
    else {
      snprintf(buf, sizeof buf, "%.17g", (double)in[k]);
      f << buf;
    }
    if (k + 1 < in.size() || rng() % 2) f << "\n";
  }
  return name;
}

template <class T>
T random_value(std::mt19937& rng, int style) {
  switch (style) {
    case 0: return (T)(int)(rng() % 3);                          // many ties
    case 1: return (T)((int)(rng() % 9) - 4);                     // ties, negative values
    case 2: return (T)std::uniform_real_distribution<double>(-10, 10)(rng);
    case 3: {                                                     // ties and infinities
      unsigned r = rng() % 8;
      if (r == 0) return std::numeric_limits<T>::infinity();
      if (r == 1) return -std::numeric_limits<T>::infinity();
      return (T)(int)(rng() % 4);
    }
    case 4: return (rng() % 3) ? std::numeric_limits<T>::infinity() : (T)(int)(rng() % 2);  // mostly missing cubes
    default: return (T)0;                                         // constant: the grid itself
  }
}

static long binom(int n, int k) {
  long r = 1;
  for (int i = 1; i <= k; ++i) r = r * (n - k + i) / i;
  return r;
}

template <class T>
void one_case(std::mt19937& rng, int mode, int case_id) {
  typedef cc::Bitmap_cubical_complex_base<T> Base;
  typedef cc::Bitmap_cubical_complex_periodic_boundary_conditions_base<T> PBase;
  typedef cc::Bitmap_cubical_complex<Base> CBase;
  typedef cc::Bitmap_cubical_complex<PBase> CPer;

  int D = 1 + rng() % 4;
  if (rng() % 16 == 0) D = 5;
  if (mode == 2) D = 1 + rng() % 9;  // big shapes, no persistence
  bool use_periodic_class = rng() % 3 != 0;
  bool top_input = rng() % 2;
  std::vector<bool> per(D, false);
  if (use_periodic_class) {
    unsigned mask = rng();
    if (rng() % 4 == 0) mask = ~0u;
    if (rng() % 8 == 0) mask = 0;
    for (int i = 0; i < D; ++i) per[i] = (mask >> i) & 1;
  }
  // sizes (number of top cells), bounded so that the complex stays small
  std::vector<unsigned> s(D);
  size_t budget = D <= 2 ? 1000 : 2500;
  if (mode == 2) budget = 60000;
  for (int attempt = 0;; ++attempt) {
    if (attempt % 50 == 49) {  // too many periodic directions for the budget: drop one
      for (int i = 0; i < D; ++i)
        if (per[i]) { per[i] = false; break; }
    }
    size_t tot = 1;
    for (int i = 0; i < D; ++i) {
      unsigned lo = 1, hi = D == 1 ? 12 : D == 2 ? 7 : D == 3 ? 4 : 3;
      if (mode == 2) hi = D == 1 ? 20000 : D == 2 ? 150 : D == 3 ? 30 : D == 4 ? 8 : D == 5 ? 5 : 3;
      if (mode == 2 && rng() % 3 == 0) hi = 1;  // many sides of length 1
      if (per[i]) lo = (mode == 0) ? 3 : 1;
      if (hi < lo) hi = lo;
      s[i] = lo + rng() % (hi - lo + 1);
      if (mode == 1 && !per[i] && !top_input && rng() % 4 == 0) s[i] = 0;  // a single vertex in this direction
      tot *= 2 * s[i] + 1;
    }
    if (tot <= budget) break;
  }
  bool strict = true;
  for (int i = 0; i < D; ++i)
    if ((per[i] && s[i] < 3) || s[i] == 0) strict = false;

  Ref<T> R;
  R.setup(s, per);
  std::vector<unsigned> dims(D);  // what the constructor wants
  size_t nin = 1;
  for (int i = 0; i < D; ++i) {
    dims[i] = top_input ? s[i] : (unsigned)R.nvert(i);
    nin *= dims[i];
  }
  int style = rng() % 6;
  std::vector<T> input(nin);
  for (auto& v : input) v = random_value<T>(rng, style);
  if (top_input) R.values_from_top(input); else R.values_from_vertices(input);

  std::ostringstream cfg;
  cfg << "case " << case_id << " T=" << (sizeof(T) == 4 ? "float" : "double") << " class=" << (use_periodic_class ? "periodic" : "base")
      << " input=" << (top_input ? "top" : "vertices") << " dims=";
  for (int i = 0; i < D; ++i) cfg << dims[i] << (per[i] ? "p" : "") << (i + 1 < D ? "x" : "");
  cfg << " style=" << style;
  current_cfg = cfg.str();
  if (getenv("FUZZ_VERBOSE")) std::cerr << current_cfg << std::endl;

  if (!use_periodic_class) {
    CBase C(dims, input, top_input);
    check_complex(C, R, top_input, input, strict, "base/");
    check_persistence(C, R, "base/");
    CBase C2(C);  // copy
    check_complex(C2, R, top_input, input, strict, "base-copy/");
    CBase C3(std::move(C2));
    check_persistence(C3, R, "base-moved/");
    // the periodic class without periodic direction must be the same complex, both constructors
    CPer P(dims, input, std::vector<bool>(D, false), top_input);
    check_complex(P, R, top_input, input, strict, "periodic-allfalse/");
    check_persistence(P, R, "periodic-allfalse/");
    CPer P2(dims, input, top_input);
    check_complex(P2, R, top_input, input, strict, "periodic-nomask/");
    if (top_input) {
      std::string name = write_perseus(R, input, false, rng, 0);
      if (sizeof(T) == 8) {  // KNOWN(defect 1): the reader of the non periodic class overflows the stack when T is float
        CBase F(name.c_str());
        check_complex(F, R, top_input, input, strict, "base-perseus/");
      }
      if (sizeof(T) == 8) {
        CPer PF(name.c_str());
        check_complex(PF, R, top_input, input, strict, "periodic-perseus-nonneg/");
      }
    }
    // raw class, "empty bitmap" constructor, values put by hand then impose_*
    {
      Base B(s);
      if (top_input) {
        size_t k = 0;
        for (auto t : B.top_dimensional_cells_range()) B.get_cell_data(t) = input[k++];
        B.impose_lower_star_filtration();
      } else {
        size_t k = 0;
        for (auto t : B.vertices_range()) B.get_cell_data(t) = input[k++];
        B.impose_lower_star_filtration_from_vertices();
      }
      for (size_t p = 0; p < R.total; ++p)
        if (!(B.get_cell_data(p) == R.val[p])) { fail("base-raw/value", "cell " + std::to_string(p)); break; }
    }
  } else {
    CPer C(dims, input, per, top_input);
    check_complex(C, R, top_input, input, strict, "periodic/");
    check_persistence(C, R, "periodic/");
    CPer C2(C);
    check_complex(C2, R, top_input, input, strict, "periodic-copy/");
    CPer C3(std::move(C2));
    check_persistence(C3, R, "periodic-moved/");
    if (top_input && sizeof(T) == 8) {
      std::string name = write_perseus(R, input, true, rng, 1);
      CPer F(name.c_str());
      check_complex(F, R, top_input, input, strict, "periodic-perseus/");
    }
    {
      PBase B(s, per);
      if (top_input) {
        size_t k = 0;
        for (auto t : B.top_dimensional_cells_range()) B.get_cell_data(t) = input[k++];
        B.impose_lower_star_filtration();
        for (size_t p = 0; p < R.total; ++p)
          if (!(B.get_cell_data(p) == R.val[p])) { fail("periodic-raw/value", "cell " + std::to_string(p)); break; }
      } else {
        size_t k = 0;
        for (auto t : B.vertices_range()) B.get_cell_data(t) = input[k++];
        B.impose_lower_star_filtration_from_vertices();
        for (size_t p = 0; p < R.total; ++p)
          if (!(B.get_cell_data(p) == R.val[p])) { fail("KNOWN(defect 3) periodic impose_lower_star_filtration_from_vertices on a bitmap made by the (sizes, directions) constructor", "cell " + std::to_string(p)); break; }
      }
    }
    // known Betti numbers of T^k x I^(D-k) when all values are equal
    if (style == 5 && strict) {
      int k = 0;
      for (int i = 0; i < D; ++i) k += per[i];
      auto dg = gudhi_persistence<CPer, T>(C, 3);
      std::vector<long> betti(D + 1, 0);
      for (auto& t : dg) betti[std::get<0>(t)]++;
      for (int i = 0; i <= D; ++i)
        if (betti[i] != (i <= k ? binom(k, i) : 0)) fail("periodic/betti_torus", "");
    }
  }
}

int main(int argc, char** argv) {
  unsigned seed = argc > 1 ? atoi(argv[1]) : 1;
  int ncases = argc > 2 ? atoi(argv[2]) : 200;
  int mode = argc > 3 ? atoi(argv[3]) : 0;
  std::mt19937 rng(seed);
  for (int c = 0; c < ncases; ++c) {
    if (c % 5 == 4)
      one_case<float>(rng, mode, c);
    else
      one_case<double>(rng, mode, c);
  }
  std::cout << "cases " << ncases << " seed " << seed << " mode " << mode << "\n";
  if (failures.empty()) {
    std::cout << "PASS\n";
    return 0;
  }
  for (auto& f : failures) std::cout << "  " << f.first << " : " << f.second << " failures\n";
  std::cout << "FAIL\n";
  return 1;
}

// ---------------------------------------------------------------------------------------------------------------------
// RECORD (worktree /repo, g++ 12). "KNOWN" categories are the defects 2 and 3 of defects.md, which every case
// meets; the category ".../top_dimensional_cells_range" of mode 1 is defect 4 (one vertex side). Defect 1 (Perseus
// reader of the non periodic class with T = float) was met on the first run and is now skipped (see one_case).
// Apart from these, NOTHING failed in:
//   mode 0  seed 21  -O2 -DNDEBUG                          20000 cases
//   mode 0  seed 31  -O2 -DGUDHI_USE_TBB                    4000 cases
//   mode 0  seed 25  -O1 -g -fsanitize=address,undefined    1000 cases (+ seed 23: about 2500 cases before its timeout)
//   mode 1  seed 22  -O2 -DNDEBUG                          10000 cases
//   mode 1  seed 24  -O1 -g -fsanitize=address,undefined    2000 cases
//   mode 2  seed 42  -O2 -DNDEBUG                           1500 cases
//   mode 2  seed 43  -O1 -g -fsanitize=address,undefined      60 cases
// i.e. for both classes, both input conventions, T = double and float, dimension 1..5 (1..9 in mode 2), sides of length
// 1.., all periodic masks (periodic sides >= 3 in mode 0, >= 1 in mode 1), values with ties / +inf / -inf / constant:
// boundaries, coboundaries, alternating signs (d.d = 0), compute_incidence_between_cells on coface-face pairs, values
// (min over top cells / max over vertices), the filtration order, keys, the iterators, get_top_dimensional_coface_of_a_cell,
// get_vertex_of_a_cell, copies and moves, the Perseus readers (double), and the persistence over Z_2, Z_3, Z_5, Z_11
// all agree with the reference; the constant tori have the Betti numbers binom(k, i).

// Differential fuzzer for property C01 (Simplex_tree == abstract complex defined by its operation history).
//
// Reference: a brute-force model  std::map<sorted vertex list, integer filtration value>  updated with the documented
// rule of each operation.  After every operation the WHOLE observable state of the tree is compared with the model
// (see Harness::check).  Every option set below runs its own random history (own model), in two label regimes:
//   regime A "contiguous": the vertex set is kept equal to {0..m-1} after every operation (required by
//                           Options::contiguous_vertices, legal for all the others),
//   regime B "wild":       labels taken from a pool with negative / large / sparse values (never null_vertex()).
//
// build (one binary per option set, see build_fuzz.sh; a single binary with all of them takes > 20 min to compile):
//   g++ -std=gnu++17 -O1 -g1 -fsanitize=address,undefined $(ls -d /repo/src/*/include | sed 's/^/-I/') \
//       -DCFG=O_full q01_fuzz_history.cpp -o fuzz_history_O_full -ltbb      (also built with -O2 -DNDEBUG, no sanitizer)
// run:   ./fuzz_history_O_full [first_seed] [nb_seeds] [steps_per_history] [flag]
//        ("flag": histories made of insert_edge_as_flag + removals of stars, only for link_nodes_by_label)
//
// RESULTS (library exactly as in /repo, no header touched) -- NOTHING FOUND by this program:
//   15 option sets (O_default, O_full, O_fast_cofaces, O_stable, O_fast_pers, O_contig_stable, O_contig_link,
//   O_contig_link_stable, O_minimal, O_low, O_low_ext, O_myfil, O_myfil_full, O_intfil_link, O_data_flat; see below),
//   each also copied to / compared with its "flipped" storage (stable <-> flat, linked <-> not linked).
//   * -O1 -fsanitize=address,undefined (GUDHI_DEBUG and boost assertions on): seeds 5000..5059 x 300 steps, mode "hist"
//     (all 15 sets, regimes A and B: ~20 000 / ~42 000 full-state comparisons per set) and mode "flag" (the 8 sets with
//     link_nodes_by_label: ~14 000 / ~27 000 comparisons per set): all PASS, no sanitizer report.
//     One set (O_fast_cofaces) also with -D_GLIBCXX_DEBUG -DGUDHI_USE_TBB: seeds 777..801, PASS.
//   * -O2 -DNDEBUG: seeds 20000..20299 x 400 steps, both modes: all PASS (136 000 .. 287 000 comparisons per set and
//     mode), i.e. same answers with and without NDEBUG.
//   * sanity of the harness: two seeded mutations of a scratch copy of Simplex_tree.h (dimension not reset when the last
//     vertex is removed; a leaf forgotten by rec_coface) are caught within the first steps.
//   typical histories: mean 10-30 simplices, up to ~100, dimension up to 4, ~40% of the steps at dimension >= 2.
//   The defects listed in defects.md were found by reading the code around the paths this program cannot reach
//   (stream input, negative skeleton dimension, unsigned labels across option sets).
#include <gudhi/Simplex_tree.h>
#include <gudhi/graph_simplicial_complex.h>

#include <boost/graph/adjacency_list.hpp>
#include <boost/graph/filtered_graph.hpp>

#include <algorithm>
#include <cstdint>
#include <cstdlib>
#include <cstring>
#include <functional>
#include <iostream>
#include <map>
#include <random>
#include <set>
#include <sstream>
#include <string>
#include <vector>

using Simplex = std::vector<long>;  // sorted, no repetition

// ---------------------------------------------------------------------------------------------------- custom types
// a user-defined filtration value (total order, wraps an int), with its own unify / intersect overloads
struct My_fil {
  int v;
  My_fil() : v(0) {}
  My_fil(int x) : v(x) {}
  friend bool operator<(const My_fil& a, const My_fil& b) { return a.v < b.v; }
  friend bool operator==(const My_fil& a, const My_fil& b) { return a.v == b.v; }
  friend bool unify_lifetimes(My_fil& a, const My_fil& b) {
    if (b.v < a.v) { a.v = b.v; return true; }
    return false;
  }
  friend bool intersect_lifetimes(My_fil& a, const My_fil& b) {
    if (a.v < b.v) { a.v = b.v; return true; }
    return false;
  }
  friend std::ostream& operator<<(std::ostream& os, const My_fil& f) { return os << "F" << f.v; }
  friend char* serialize_value_to_char_buffer(const My_fil& value, char* start) {
    memcpy(start, &value.v, sizeof(int));
    return start + sizeof(int);
  }
  friend const char* deserialize_value_from_char_buffer(My_fil& value, const char* start) {
    memcpy(&value.v, start, sizeof(int));
    return start + sizeof(int);
  }
  friend std::size_t get_serialization_size_of(const My_fil&) { return sizeof(int); }
};
namespace std {
template <>
class numeric_limits<My_fil> {
 public:
  static constexpr bool has_infinity = true;
  static constexpr bool has_quiet_NaN = false;
  static My_fil infinity() noexcept { return My_fil(std::numeric_limits<int>::max()); }
  static My_fil max() noexcept { return My_fil(std::numeric_limits<int>::max()); }
};
}  // namespace std

using namespace Gudhi;

struct O_default : Simplex_tree_options_default {};
struct O_full : Simplex_tree_options_full_featured {};
struct O_fast_cofaces : Simplex_tree_options_default {  // link + flat (simplex_tree_edge_expansion_unit_test)
  static const bool link_nodes_by_label = true;
};
struct O_stable : Simplex_tree_options_default {  // stable, no link (serialization test)
  static const bool stable_simplex_handles = true;
};
struct O_fast_pers : Simplex_tree_options_fast_persistence {};  // contiguous, float
struct O_contig_stable : Simplex_tree_options_fast_persistence {
  static const bool stable_simplex_handles = true;
};
struct O_contig_link : Simplex_tree_options_fast_persistence {
  static const bool link_nodes_by_label = true;
};
struct O_contig_link_stable : Simplex_tree_options_fast_persistence {
  static const bool link_nodes_by_label = true;
  static const bool stable_simplex_handles = true;
};
struct O_minimal : Simplex_tree_options_minimal {  // no key, no filtration, short labels (remove test)
  typedef short Vertex_handle;
};
struct O_low : Simplex_tree_options_full_featured {  // serialization test "Low_options"
  static const bool store_filtration = false;
  static const bool store_key = true;
  typedef std::uint8_t Vertex_handle;
  typedef std::uint8_t Simplex_key;
};
struct O_low_ext : Simplex_tree_options_default {  // extended filtration test "Low_options"
  typedef float Filtration_value;
  typedef std::uint8_t Vertex_handle;
};
struct O_myfil : Simplex_tree_options_default {  // custom filtration value + 64 bit labels + no key
  typedef My_fil Filtration_value;
  typedef std::int64_t Vertex_handle;
  static const bool store_key = false;
};
struct O_myfil_full : Simplex_tree_options_full_featured {
  typedef My_fil Filtration_value;
  typedef std::int16_t Vertex_handle;
  typedef std::string Simplex_data;
};
struct O_data_flat : Simplex_tree_options_default {  // user data in the nodes of flat maps that move their elements
  static const bool link_nodes_by_label = true;
  typedef std::string Simplex_data;
};
struct O_intfil_link : Simplex_tree_options_default {  // integral filtration value (no infinity, no NaN)
  typedef int Filtration_value;
  typedef signed char Vertex_handle;
  static const bool link_nodes_by_label = true;
  typedef int Simplex_data;
};

template <class O>
struct Flip : O {  // the "opposite" storage of O, everything else kept
  static const bool stable_simplex_handles = !O::stable_simplex_handles;
  static const bool link_nodes_by_label = !O::link_nodes_by_label;
};

// ------------------------------------------------------------------------------------------------------- harness
struct Failure {};

template <class ST>
struct Harness {
  using O = typename ST::Options;
  using VH = typename ST::Vertex_handle;
  using Fil = typename ST::Filtration_value;
  using SH = typename ST::Simplex_handle;
  static constexpr bool storeF = O::store_filtration;
  static constexpr bool stable = O::stable_simplex_handles;

  ST st;
  std::map<Simplex, int> M;
  std::mt19937_64 rng;
  std::vector<long> pool;
  bool contiguous;  // regime A
  bool monotone = true;
  std::vector<std::string> log;
  std::string name;
  std::vector<std::pair<Simplex, SH>> watch;  // stable handles only
  long nb_checks = 0;
  long sum_size = 0, max_size = 0, dim_hist[8] = {0, 0, 0, 0, 0, 0, 0, 0};

  Harness(std::string n, std::uint64_t seed, bool contig) : rng(seed), contiguous(contig), name(n) {
    if (contig) {
      for (long i = 0; i < 9; ++i) pool.push_back(i);
    } else {
      std::vector<long> cand = {-1000000000L, -32768, -128, -7, -2, 0, 1, 2, 3, 5, 8, 100, 126, 127, 254,
                                255, 300, 32767, 70000, 2147483647L, 4000000000L};
      std::vector<long> ok;
      for (long c : cand) {
        VH v = static_cast<VH>(c);
        if (static_cast<long>(v) != c) continue;            // not representable
        if (v == static_cast<VH>(-1)) continue;              // null_vertex()
        ok.push_back(c);
      }
      std::shuffle(ok.begin(), ok.end(), rng);
      if (ok.size() > 8) ok.resize(8);
      std::sort(ok.begin(), ok.end());
      pool = ok;
    }
  }

  // ------------------------------------------------------------------ utilities
  int rnd(int a, int b) { return std::uniform_int_distribution<int>(a, b)(rng); }
  static constexpr int PINF = std::numeric_limits<int>::max(), MINF = std::numeric_limits<int>::min();
  static constexpr bool has_inf = std::is_floating_point<Fil>::value;
  static Fil mk(int x) {
    if constexpr (has_inf) {
      if (x == PINF) return std::numeric_limits<Fil>::infinity();
      if (x == MINF) return -std::numeric_limits<Fil>::infinity();
    }
    if constexpr (storeF) return Fil(x); else return Fil(0);
  }
  static std::string fstr(int x) { return x == PINF ? "+inf" : x == MINF ? "-inf" : std::to_string(x); }
  int rfil() {
    if (!storeF) return 0;
    int r = rnd(0, 40);
    if (r == 0) return -3;
    if (r == 1) return 1000000;
    if (r == 2 && has_inf) return PINF;
    if (r == 3 && has_inf) return MINF;
    return rnd(0, 6);
  }
  static std::vector<VH> tov(const Simplex& s) {
    std::vector<VH> r;
    for (long x : s) r.push_back(static_cast<VH>(x));
    return r;
  }
  static std::string str(const Simplex& s) {
    std::ostringstream os;
    os << "{";
    for (std::size_t i = 0; i < s.size(); ++i) os << (i ? "," : "") << s[i];
    os << "}";
    return os.str();
  }
  template <class Range>
  static std::string strv(const Range& s) {
    std::ostringstream os;
    os << "{";
    bool first = true;
    for (auto x : s) { os << (first ? "" : ",") << static_cast<long>(x); first = false; }
    os << "}";
    return os.str();
  }
  template <class Tree, class Handle>
  Simplex simplex_of(const Tree& t, Handle sh) const {
    Simplex s;
    for (auto v : t.simplex_vertex_range(sh)) s.push_back(static_cast<long>(v));
    // must be strictly decreasing
    for (std::size_t i = 1; i < s.size(); ++i)
      if (!(s[i] < s[i - 1])) fail("simplex_vertex_range not strictly decreasing: " + str(s));
    std::reverse(s.begin(), s.end());
    return s;
  }
  [[noreturn]] void fail(const std::string& msg) const {
    std::cout << "FAIL [" << name << (contiguous ? " /A" : " /B") << "] " << msg << "\n  history:\n";
    for (auto& l : log) std::cout << "    " << l << "\n";
    std::cout << "  model:";
    for (auto& p : M) std::cout << " " << str(p.first) << ":" << p.second;
    std::cout << std::endl;
    throw Failure();
  }
  int mdim() const {
    int d = -1;
    for (auto& p : M) d = std::max(d, static_cast<int>(p.first.size()) - 1);
    return d;
  }
  bool model_contiguous(const std::map<Simplex, int>& m) const {
    long k = 0;
    for (auto& p : m)
      if (p.first.size() == 1) {
        if (p.first[0] != k) return false;
        ++k;
      }
    return true;
  }
  static std::vector<Simplex> faces(const Simplex& s, bool proper) {
    std::vector<Simplex> r;
    std::size_t n = s.size();
    for (unsigned mask = 1; mask < (1u << n); ++mask) {
      if (proper && mask == (1u << n) - 1) continue;
      Simplex f;
      for (std::size_t i = 0; i < n; ++i)
        if (mask >> i & 1) f.push_back(s[i]);
      r.push_back(f);
    }
    return r;
  }
  static bool subset(const Simplex& a, const Simplex& b) {
    return std::includes(b.begin(), b.end(), a.begin(), a.end());
  }
  bool is_maximal(const Simplex& s) const {
    for (auto& p : M)
      if (p.first.size() == s.size() + 1 && subset(s, p.first)) return false;
    return true;
  }
  void model_make_non_decreasing(std::map<Simplex, int>& m, bool& modified) const {
    modified = false;
    std::vector<Simplex> keys;
    for (auto& p : m) keys.push_back(p.first);
    std::stable_sort(keys.begin(), keys.end(), [](const Simplex& a, const Simplex& b) { return a.size() < b.size(); });
    for (auto& s : keys) {
      if (s.size() == 1) continue;
      for (std::size_t i = 0; i < s.size(); ++i) {
        Simplex f = s;
        f.erase(f.begin() + i);
        if (m[s] < m[f]) { m[s] = m[f]; modified = true; }
      }
    }
  }

  // ------------------------------------------------------------------ the whole observable state against the model
  template <class Tree>
  void check_tree(const Tree& t, const std::string& where, int level) {
    ++nb_checks;
    auto bad = [&](const std::string& m) { fail(where + ": " + m); };
    std::size_t nv = 0;
    for (auto& p : M) nv += p.first.size() == 1;
    if (t.num_vertices() != nv) bad("num_vertices " + std::to_string(t.num_vertices()) + " expected " + std::to_string(nv));
    if (t.num_simplices() != M.size())
      bad("num_simplices " + std::to_string(t.num_simplices()) + " expected " + std::to_string(M.size()));
    if (t.is_empty() != M.empty()) bad("is_empty");
    {  // vertices
      std::vector<long> got, exp;
      for (auto v : t.complex_vertex_range()) got.push_back(static_cast<long>(v));
      for (auto& p : M) if (p.first.size() == 1) exp.push_back(p.first[0]);
      if (got != exp) bad("complex_vertex_range " + strv(got) + " expected " + strv(exp));
    }
    const int md = mdim();
    // lazily recomputed dimension: checked in random order w.r.t. the other readers, and not at every step, so that
    // the "to be lowered" state survives several operations
    int order = rnd(0, 5);
    auto check_dim = [&]() {
      int ub = t.upper_bound_dimension();
      if (ub < md) bad("upper_bound_dimension " + std::to_string(ub) + " < dimension " + std::to_string(md));
      int d = t.dimension();
      if (d != md) bad("dimension() " + std::to_string(d) + " expected " + std::to_string(md));
      if (t.upper_bound_dimension() != md) bad("upper_bound_dimension after dimension()");
    };
    auto check_counts = [&]() {
      std::vector<std::size_t> exp(md + 1, 0);
      for (auto& p : M) ++exp[p.first.size() - 1];
      auto got = t.num_simplices_by_dimension();
      if (got != exp) bad("num_simplices_by_dimension " + strv(got) + " expected " + strv(exp));
    };
    if (t.upper_bound_dimension() < md) bad("upper bound below the dimension");
    if (order == 0) { check_dim(); check_counts(); }
    if (order == 1) { check_counts(); check_dim(); }

    // all simplices
    std::vector<Simplex> got;
    for (auto sh : t.complex_simplex_range()) {
      Simplex s = simplex_of(t, sh);
      got.push_back(s);
      auto it = M.find(s);
      if (it == M.end()) bad("complex_simplex_range gives " + str(s) + " not in the model");
      if (!(t.filtration(sh) == mk(it->second))) {
        std::ostringstream os;
        os << "filtration of " << str(s) << " is " << t.filtration(sh) << " expected " << it->second;
        bad(os.str());
      }
      if (t.dimension(sh) != static_cast<int>(s.size()) - 1) bad("dimension(sh) of " + str(s));
    }
    {
      std::vector<Simplex> sorted = got;
      std::sort(sorted.begin(), sorted.end());
      std::vector<Simplex> exp;
      for (auto& p : M) exp.push_back(p.first);
      if (sorted != exp) bad("complex_simplex_range: " + std::to_string(got.size()) + " simplices, expected " +
                             std::to_string(exp.size()));
    }
    // skeleta
    for (int d = 0; d <= md + 1; ++d) {
      std::vector<Simplex> g, e;
      for (auto sh : t.skeleton_simplex_range(d)) g.push_back(simplex_of(t, sh));
      std::sort(g.begin(), g.end());
      for (auto& p : M) if (static_cast<int>(p.first.size()) - 1 <= d) e.push_back(p.first);
      if (g != e) bad("skeleton_simplex_range(" + std::to_string(d) + ")");
    }
    // find: members (shuffled input) ...
    for (auto& p : M) {
      std::vector<VH> v = tov(p.first);
      std::shuffle(v.begin(), v.end(), rng);
      auto sh = t.find(v);
      if (sh == t.null_simplex()) bad("find misses " + str(p.first));
      if (simplex_of(t, sh) != p.first) bad("find returns another simplex for " + str(p.first));
    }
    // ... and non members
    for (int k = 0; k < 12; ++k) {
      Simplex s;
      int n = rnd(1, 5);
      for (int i = 0; i < n; ++i) s.push_back(pool[rnd(0, (int)pool.size() - 1)]);
      std::sort(s.begin(), s.end());
      s.erase(std::unique(s.begin(), s.end()), s.end());
      std::vector<VH> v = tov(s);
      std::shuffle(v.begin(), v.end(), rng);
      auto sh = t.find(v);
      if ((sh != t.null_simplex()) != (M.count(s) != 0)) bad("find on " + str(s));
    }
    if (t.find(std::vector<VH>()) != t.null_simplex()) bad("find of the empty simplex");

    // boundaries, stars, cofaces
    for (auto& p : M) {
      const Simplex& s = p.first;
      auto sh = t.find(tov(s));
      {
        std::vector<Simplex> exp;  // omit v_d first, v_0 last
        for (int i = (int)s.size() - 1; i >= 0 && s.size() > 1; --i) {
          Simplex f = s;
          f.erase(f.begin() + i);
          exp.push_back(f);
        }
        std::vector<Simplex> g;
        for (auto b : t.boundary_simplex_range(sh)) g.push_back(simplex_of(t, b));
        if (g != exp) bad("boundary_simplex_range of " + str(s));
        std::size_t i = 0;
        for (auto pr : t.boundary_opposite_vertex_simplex_range(sh)) {
          if (i >= exp.size()) bad("boundary_opposite_vertex_simplex_range too long for " + str(s));
          if (simplex_of(t, pr.first) != exp[i]) bad("boundary_opposite_vertex_simplex_range face of " + str(s));
          long opp = s[s.size() - 1 - i];
          if (static_cast<long>(pr.second) != opp)
            bad("opposite vertex of " + str(s) + " #" + std::to_string(i) + " is " +
                std::to_string((long)pr.second) + " expected " + std::to_string(opp));
          ++i;
        }
        if (i != exp.size()) bad("boundary_opposite_vertex_simplex_range too short for " + str(s));
      }
      for (int codim = 0; codim <= 4; ++codim) {
        if (level > 0 && codim > 1 && rnd(0, 3)) continue;
        std::vector<Simplex> exp;
        for (auto& q : M)
          if (subset(s, q.first) && (codim == 0 || q.first.size() == s.size() + codim)) exp.push_back(q.first);
        std::vector<Simplex> g;
        if (codim == 0 && rnd(0, 1)) {
          for (auto c : t.star_simplex_range(sh)) g.push_back(simplex_of(t, c));
        } else {
          for (auto c : t.cofaces_simplex_range(sh, codim)) g.push_back(simplex_of(t, c));
        }
        std::sort(g.begin(), g.end());
        if (g != exp)
          bad("cofaces_simplex_range(" + str(s) + ", " + std::to_string(codim) + "): " + std::to_string(g.size()) +
              " simplices, expected " + std::to_string(exp.size()));
      }
    }
    if (order == 2) { check_dim(); check_counts(); }
    if (order == 3) { check_counts(); check_dim(); }

    // filtration order
    if (monotone && rnd(0, 2) == 0) {
      t.initialize_filtration();
      auto const& r = t.filtration_simplex_range();
      if (r.size() != M.size()) bad("filtration_simplex_range size");
      std::map<Simplex, std::size_t> pos;
      std::size_t i = 0;
      int last = 0;
      for (auto sh : r) {
        Simplex s = simplex_of(t, sh);
        if (!M.count(s)) bad("filtration_simplex_range: unknown simplex");
        if (i && M[s] < last) bad("filtration_simplex_range not sorted");
        last = M[s];
        for (std::size_t k = 0; k < s.size() && s.size() > 1; ++k) {
          Simplex f = s;
          f.erase(f.begin() + k);
          if (!pos.count(f)) bad("filtration_simplex_range: face after coface");
        }
        if (pos.count(s)) bad("filtration_simplex_range: twice the same simplex");
        pos[s] = i++;
      }
      t.clear_filtration();
    }

    // equality with a tree rebuilt from scratch (faces first)
    if (level == 0 || rnd(0, 1)) {
      Tree fresh;
      std::vector<Simplex> keys;
      for (auto& p : M) keys.push_back(p.first);
      std::stable_sort(keys.begin(), keys.end(), [](const Simplex& a, const Simplex& b) { return a.size() < b.size(); });
      // a stream of simplices in any order is documented as fine (with a monotone filtration)
      if (monotone && rnd(0, 1)) std::reverse(keys.begin(), keys.end());
      for (auto& s : keys) fresh.insert_simplex(tov(s), mk(M[s]));
      if (!(fresh == t)) bad("tree != tree rebuilt from scratch (dimension_ " + std::to_string(t.upper_bound_dimension()) + ")");
      if (!(t == fresh)) bad("tree != tree rebuilt from scratch (2)");
      if (fresh != t) bad("operator!= against the rebuilt tree");
      if (!M.empty()) {
        // a different complex must be different
        Tree other(fresh);
        Simplex mx = keys.front().size() >= keys.back().size() ? keys.front() : keys.back();
        other.remove_maximal_simplex(other.find(tov(mx)));
        if (other == t || t == other) bad("tree == a tree with one simplex less");
      }
    }
    if (order == 4) { check_dim(); check_counts(); }
  }

  void check(const std::string& where) {
    sum_size += M.size();
    max_size = std::max<long>(max_size, M.size());
    ++dim_hist[std::min(mdim() + 1, 7)];
    // stable handles still designate their simplex
    if constexpr (stable) {
      std::vector<std::pair<Simplex, SH>> kept;
      for (auto& w : watch) {
        if (!M.count(w.first)) continue;
        if (simplex_of(st, w.second) != w.first) fail(where + ": stable handle of " + str(w.first) + " changed");
        if (!(st.filtration(w.second) == mk(M[w.first]))) fail(where + ": stable handle filtration");
        kept.push_back(w);
      }
      watch.swap(kept);
      if (!M.empty() && watch.size() < 6) {
        auto it = M.begin();
        std::advance(it, rnd(0, (int)M.size() - 1));
        watch.emplace_back(it->first, st.find(tov(it->first)));
      }
    }
    if constexpr (std::is_same<typename ST::Simplex_data, std::string>::value) {
      // the data follows its simplex: unset (empty) data gets the name of the simplex, set data must still be the name
      // (data is not kept by serialization nor by the copies through other options: then it is empty again)
      for (auto& p : M) {
        SH sh = st.find(tov(p.first));
        std::string& d = st.simplex_data(sh);
        if (d.empty()) d = str(p.first);
        else if (d != str(p.first)) fail(where + ": simplex_data of " + str(p.first) + " is " + d);
      }
    }
    check_tree(st, where, 0);
    if (rnd(0, 5) == 0) {
      ST cp(st);
      if (!(cp == st)) fail(where + ": copy != original");
      check_tree(cp, where + " [copy]", 1);
    }
    if (rnd(0, 7) == 0) {
      using FT = Simplex_tree<Flip<O>>;
      FT f(st, [](const Fil& x) { return x; });
      if (!(f == st)) fail(where + ": flipped-options copy != original");
      if (!(st == f)) fail(where + ": original != flipped-options copy");
      check_tree(f, where + " [flipped-options copy]", 1);
    }
  }

  // ------------------------------------------------------------------ operations
  // returns false when the op was not applicable
  bool contiguous_ok(const std::map<Simplex, int>& m) const { return !contiguous || model_contiguous(m); }

  void op_insert_simplex() {
    // a simplex all of whose proper faces are present, value >= the values of the faces
    Simplex s;
    for (int attempt = 0; attempt < 30; ++attempt) {
      s.clear();
      if (!M.empty() && rnd(0, 3)) {
        auto it = M.begin();
        std::advance(it, rnd(0, (int)M.size() - 1));
        s = it->first;
        if (rnd(0, 2)) s.push_back(pool[rnd(0, (int)pool.size() - 1)]);
      } else {
        s.push_back(pool[rnd(0, (int)pool.size() - 1)]);
      }
      std::sort(s.begin(), s.end());
      s.erase(std::unique(s.begin(), s.end()), s.end());
      bool ok = s.size() <= 5;
      for (auto& f : faces(s, true)) ok = ok && M.count(f);
      if (ok) break;
      s.clear();
    }
    if (s.empty()) return;
    int f = storeF ? -3 : 0;
    for (auto& fc : faces(s, true)) f = std::max(f, M[fc]);
    if (s.size() == 1) f = rfil(); else if (storeF && f != PINF && f != MINF) f += rnd(0, 2);
    auto m2 = M;
    bool existed = m2.count(s);
    bool lowered = existed && f < m2[s];
    if (!existed) m2[s] = f; else m2[s] = std::min(m2[s], f);
    if (!contiguous_ok(m2)) return;
    std::vector<VH> v = tov(s);
    std::shuffle(v.begin(), v.end(), rng);
    log.push_back("insert_simplex(" + strv(v) + ", " + fstr(f) + ")");
    auto r = st.insert_simplex(v, mk(f));
    M = m2;
    if (r.second != !existed) fail("insert_simplex: bool is " + std::to_string(r.second));
    if (!existed || lowered) {
      if (r.first == st.null_simplex()) fail("insert_simplex: null handle");
      if (simplex_of(st, r.first) != s) fail("insert_simplex: handle of another simplex");
    } else if (r.first != st.null_simplex()) fail("insert_simplex: non-null handle for an unchanged simplex");
  }

  void op_insert_subfaces() {
    int n = rnd(1, 5);
    std::vector<long> raw;
    for (int i = 0; i < n; ++i) raw.push_back(pool[rnd(0, (int)pool.size() - 1)]);
    if (contiguous && rnd(0, 3)) {  // the new vertices take the next labels
      long m = 0;
      for (auto& p : M) m += p.first.size() == 1;
      std::set<long> fresh;
      for (long x : raw) if (x >= m) fresh.insert(x);
      for (auto& x : raw)
        if (x >= m) x = m + std::distance(fresh.begin(), fresh.find(x));
    }
    if (rnd(0, 2) == 0) { raw.push_back(raw[0]); raw.push_back(raw.back()); }  // repeated vertices
    std::shuffle(raw.begin(), raw.end(), rng);
    Simplex s = raw;
    std::sort(s.begin(), s.end());
    s.erase(std::unique(s.begin(), s.end()), s.end());
    int f = rfil();
    auto m2 = M;
    bool existed = m2.count(s);
    bool lowered = existed && f < m2[s];
    for (auto& fc : faces(s, false)) {
      if (m2.count(fc)) m2[fc] = std::min(m2[fc], f); else m2[fc] = f;
    }
    if (!contiguous_ok(m2)) return;
    std::vector<VH> v = tov(raw);
    log.push_back("insert_simplex_and_subfaces(" + strv(v) + ", " + fstr(f) + ")");
    auto r = st.insert_simplex_and_subfaces(v, mk(f));
    M = m2;
    if (r.second != !existed) fail("insert_simplex_and_subfaces: bool is " + std::to_string(r.second));
    if (!existed || lowered) {
      if (r.first == st.null_simplex()) fail("insert_simplex_and_subfaces: null handle");
      if (simplex_of(st, r.first) != s) fail("insert_simplex_and_subfaces: handle of another simplex");
    } else if (r.first != st.null_simplex()) fail("insert_simplex_and_subfaces: non-null handle, unchanged simplex");
  }

  void op_batch() {
    int n = rnd(0, 6);
    std::vector<long> raw;
    for (int i = 0; i < n; ++i) raw.push_back(pool[rnd(0, (int)pool.size() - 1)]);
    if (contiguous) {
      long m = 0;
      for (auto& p : M) m += p.first.size() == 1;
      raw.clear();
      for (int i = 0; i < n; ++i) raw.push_back(m + i < (long)pool.size() ? m + i : 0);
      if (rnd(0, 1) && n) raw.push_back(0);
      std::shuffle(raw.begin(), raw.end(), rng);
    }
    int f = rfil();
    auto m2 = M;
    for (long x : raw) if (!m2.count(Simplex{x})) m2[Simplex{x}] = f;
    if (!contiguous_ok(m2)) return;
    std::vector<VH> v = tov(raw);
    log.push_back("insert_batch_vertices(" + strv(v) + ", " + fstr(f) + ")");
    st.insert_batch_vertices(v, mk(f));
    M = m2;
  }

  void op_remove_maximal() {
    if (M.empty()) return;
    std::vector<Simplex> mx;
    for (auto& p : M) if (is_maximal(p.first)) mx.push_back(p.first);
    Simplex s = mx[rnd(0, (int)mx.size() - 1)];
    auto m2 = M;
    m2.erase(s);
    if (!contiguous_ok(m2)) return;
    log.push_back("remove_maximal_simplex(" + str(s) + ")");
    st.remove_maximal_simplex(st.find(tov(s)));
    M = m2;
  }

  void op_collapse() {  // remove a maximal simplex then its free face
    std::vector<std::pair<Simplex, Simplex>> cand;
    for (auto& p : M) {
      if (p.first.size() < 2 || !is_maximal(p.first)) continue;
      for (std::size_t i = 0; i < p.first.size(); ++i) {
        Simplex f = p.first;
        f.erase(f.begin() + i);
        int n = 0;
        for (auto& q : M) n += q.first.size() == f.size() + 1 && subset(f, q.first);
        if (n == 1) cand.emplace_back(p.first, f);
      }
    }
    if (cand.empty()) return;
    auto c = cand[rnd(0, (int)cand.size() - 1)];
    auto m2 = M;
    m2.erase(c.first);
    m2.erase(c.second);
    if (!contiguous_ok(m2)) return;
    log.push_back("collapse: remove_maximal_simplex(" + str(c.first) + "); remove_maximal_simplex(" + str(c.second) + ")");
    st.remove_maximal_simplex(st.find(tov(c.first)));
    M.erase(c.first);
    if (rnd(0, 1)) check("between the two removals of a collapse");
    st.remove_maximal_simplex(st.find(tov(c.second)));
    M = m2;
  }

  void op_remove_star() {  // the star of a simplex, read with star_simplex_range, removed from the top
    if (M.empty()) return;
    auto it = M.begin();
    std::advance(it, rnd(0, (int)M.size() - 1));
    Simplex s = it->first;
    auto m2 = M;
    for (auto& p : M) if (subset(s, p.first)) m2.erase(p.first);
    if (!contiguous_ok(m2)) return;
    std::vector<Simplex> star;
    for (SH c : st.star_simplex_range(st.find(tov(s)))) star.push_back(simplex_of(st, c));
    std::stable_sort(star.begin(), star.end(), [](const Simplex& a, const Simplex& b) { return a.size() > b.size(); });
    log.push_back("remove the star of " + str(s) + " from the top (" + std::to_string(star.size()) + " simplices)");
    for (auto& c : star) {
      st.remove_maximal_simplex(st.find(tov(c)));
      M.erase(c);
      if (rnd(0, 9) == 0) check("in the middle of the removal of a star, after " + str(c));
    }
    if (M != m2) fail("star_simplex_range did not give the star of " + str(s));
  }

  void op_prune_filtration() {
    int t = storeF ? (rnd(0, 3) ? rnd(2, 7) : rnd(-4, 7)) : (rnd(0, 4) ? rnd(0, 1) : -1);
    if (rnd(0, 15) == 0) t = 1000000;
    if (has_inf && storeF && rnd(0, 25) == 0) t = MINF;
    auto m2 = M;
    bool modified = false;
    for (auto& p : M) if (p.second > t) { m2.erase(p.first); modified = true; }
    if (!contiguous_ok(m2)) return;
    log.push_back("prune_above_filtration(" + fstr(t) + ")");
    // mk(t) would be 0 for the trees without filtration: build the threshold directly
    bool r = st.prune_above_filtration(t == MINF ? mk(t) : Fil(t));
    M = m2;
    if (r != modified) fail("prune_above_filtration returns " + std::to_string(r));
  }

  void op_prune_filtration_inf() {
    if constexpr (std::numeric_limits<Fil>::has_infinity) {
      log.push_back("prune_above_filtration(inf)");
      if (st.prune_above_filtration(std::numeric_limits<Fil>::infinity())) fail("prune_above_filtration(inf) returns true");
    }
  }

  void op_prune_dimension() {
    int d = rnd(0, 3) ? rnd(1, 4) : rnd(-2, 4);
    auto m2 = M;
    bool modified = false;
    for (auto& p : M) if ((int)p.first.size() - 1 > d) { m2.erase(p.first); modified = true; }
    log.push_back("prune_above_dimension(" + std::to_string(d) + ")");
    bool r = st.prune_above_dimension(d);
    M = m2;
    if (r != modified) fail("prune_above_dimension returns " + std::to_string(r));
  }

  void op_clear() {
    log.push_back("clear()");
    st.clear();
    M.clear();
    watch.clear();
  }

  void op_copy_move() {
    int k = rnd(0, 5);
    watch.clear();
    if (k == 5) {
      if constexpr (std::is_arithmetic<Fil>::value && sizeof(VH) > 1) {
        log.push_back("st = tree read back (operator>>) from its output (operator<<)");
        st.clear_filtration();
        std::stringstream ss;
        ss << st;
        ST other;
        ss >> other;
        st.clear_filtration();
        if (!(other == st)) fail("tree read back from its output != original");
        st = std::move(other);
        return;
      } else {
        k = 0;
      }
    }
    if (k == 0) {
      log.push_back("st = copy of st");
      ST tmp(st);
      st = tmp;
    } else if (k == 1) {
      log.push_back("st = move(move-constructed from st)");
      ST tmp(std::move(st));
      // the moved-from tree is "available again" (comment in the move constructor)
      if (st.num_simplices() != 0 || st.dimension() != -1 || !st.is_empty()) fail("moved-from tree not empty");
      st.insert_simplex_and_subfaces(tov(Simplex{pool[0], pool[1]}), mk(0));
      if (st.num_simplices() != 3 || st.dimension() != 1) fail("moved-from tree not usable");
      st = std::move(tmp);
      if (tmp.num_simplices() != 0 || tmp.dimension() != -1) fail("moved-from (assignment) tree not empty");
    } else if (k == 2) {
      log.push_back("st = roundtrip through the flipped options");
      using FT = Simplex_tree<Flip<O>>;
      FT f(st, [](const Fil& x) { return x; });
      ST back(f, [](const Fil& x) { return x; });
      st = std::move(back);
    } else if (k == 3) {
      log.push_back("st = deserialize(serialize(st))");
      std::size_t sz = st.get_serialization_size();
      std::vector<char> buf(sz);
      st.serialize(buf.data(), sz);
      ST other;
      other.deserialize(buf.data(), sz);
      if (!(other == st)) fail("deserialized tree != original");
      st = other;
    } else {
      log.push_back("self assignment");
      ST& ref = st;
      st = ref;
    }
  }

  void op_reset_filtration() {
    int f = rfil();
    int min_dim = rnd(0, 3);
    log.push_back("reset_filtration(" + fstr(f) + ", " + std::to_string(min_dim) + ")");
    st.reset_filtration(mk(f), min_dim);
    for (auto& p : M) if ((int)p.first.size() - 1 >= min_dim) p.second = f;
    monotone = false;
    if (rnd(0, 1)) check("after reset_filtration, before make_filtration_non_decreasing");
    bool modified;
    model_make_non_decreasing(M, modified);
    // (make_filtration_non_decreasing does not compile when store_filtration is false)
    if constexpr (storeF) {
      log.push_back("make_filtration_non_decreasing()");
      bool r = st.make_filtration_non_decreasing();
      if (r != modified) fail("make_filtration_non_decreasing returns " + std::to_string(r));
    }
    monotone = true;
  }

  void op_assign_filtration() {
    if (M.empty() || !storeF) return;
    int n = rnd(1, 4);
    for (int i = 0; i < n; ++i) {
      auto it = M.begin();
      std::advance(it, rnd(0, (int)M.size() - 1));
      int f = rfil();
      log.push_back("assign_filtration(" + str(it->first) + ", " + fstr(f) + ")");
      st.assign_filtration(st.find(tov(it->first)), mk(f));
      it->second = f;
    }
    monotone = false;
    bool modified;
    model_make_non_decreasing(M, modified);
    // (make_filtration_non_decreasing does not compile when store_filtration is false)
    if constexpr (storeF) {
      log.push_back("make_filtration_non_decreasing()");
      bool r = st.make_filtration_non_decreasing();
      if (r != modified) fail("make_filtration_non_decreasing returns " + std::to_string(r));
    }
    monotone = true;
    if constexpr (storeF) if (st.make_filtration_non_decreasing()) fail("second make_filtration_non_decreasing returns true");
  }

  void model_expand(std::map<Simplex, int>& m, int max_dim) const {
    // flag complex of the 1-skeleton, value = max over the faces
    for (int d = 2; d <= max_dim; ++d) {
      std::vector<Simplex> prev;
      for (auto& p : m) if ((int)p.first.size() == d) prev.push_back(p.first);
      std::vector<long> verts;
      for (auto& p : m) if (p.first.size() == 1) verts.push_back(p.first[0]);
      for (auto& s : prev)
        for (long v : verts) {
          if (v <= s.back()) continue;
          Simplex n = s;
          n.push_back(v);
          bool ok = true;
          int f = MINF;
          for (std::size_t i = 0; i < n.size() && ok; ++i) {
            Simplex fc = n;
            fc.erase(fc.begin() + i);
            auto it = m.find(fc);
            if (it == m.end()) ok = false; else f = std::max(f, it->second);
          }
          if (ok) m[n] = f;
        }
    }
  }

  void op_expansion() {
    if (mdim() > 1) return;
    int max_dim = rnd(0, 4);
    log.push_back("expansion(" + std::to_string(max_dim) + ")");
    st.expansion(max_dim);
    model_expand(M, max_dim);
  }

  static bool blocked(const Simplex& s, int salt) {
    unsigned h = 2166136261u + salt;
    for (long x : s) h = (h ^ (unsigned)(x + 77)) * 16777619u;
    return (h >> 7) % 3 == 0;
  }
  void op_expansion_with_blockers() {
    if (mdim() > 1) return;
    int max_dim = rnd(0, 4);
    int kind = rnd(0, 3);
    int salt = rnd(0, 1000);
    log.push_back("expansion_with_blockers(" + std::to_string(max_dim) + ", " +
                  (kind == 0 ? "always" : kind == 1 ? "never" : "hash " + std::to_string(salt)) + ")");
    if (kind == 1) {
      st.expansion_with_blockers(max_dim, [](SH) { return false; });
      model_expand(M, max_dim);
    } else if (kind == 0) {
      st.expansion_with_blockers(max_dim, [](SH) { return true; });
    } else {
      // a simplex is a candidate when all its facets were kept; kept unless the oracle blocks it
      st.expansion_with_blockers(max_dim, [&](SH sh) { return blocked(simplex_of(st, sh), salt); });
      for (int d = 2; d <= max_dim; ++d) {
        std::vector<Simplex> prev;
        std::vector<long> verts;
        for (auto& p : M) {
          if ((int)p.first.size() == d) prev.push_back(p.first);
          if (p.first.size() == 1) verts.push_back(p.first[0]);
        }
        for (auto& sp : prev)
          for (long v : verts) {
            if (v <= sp.back()) continue;
            Simplex n = sp;
            n.push_back(v);
            bool ok = true;
            int f = MINF;
            for (std::size_t i = 0; i < n.size() && ok; ++i) {
              Simplex fc = n;
              fc.erase(fc.begin() + i);
              auto it = M.find(fc);
              if (it == M.end()) ok = false; else f = std::max(f, it->second);
            }
            if (ok && !blocked(n, salt)) M[n] = f;
          }
      }
    }
  }

  void op_insert_graph() {
    if (!M.empty()) {
      if (rnd(0, 2)) return;
      op_clear();
    }
    int kind = rnd(0, 2);
    int n = rnd(0, (int)(contiguous ? pool.size() : 7));
    std::vector<int> vf(n);
    for (auto& x : vf) x = storeF ? rnd(0, 3) : 0;
    std::vector<std::tuple<int, int, int>> edges;
    int ne = n >= 2 ? rnd(0, 2 * n) : 0;
    std::map<std::pair<int, int>, int> ef;
    for (int i = 0; i < ne; ++i) {
      int a = rnd(0, n - 1), b = rnd(0, n - 1);
      if (a == b) continue;
      auto key = std::minmax(a, b);
      if (!ef.count(key)) ef[key] = storeF ? std::max(vf[a], vf[b]) + rnd(0, 3) : 0;
      edges.emplace_back(a, b, ef[key]);  // both orientations and repetitions, always the same value
    }
    std::ostringstream os;
    os << "insert_graph(kind " << kind << ", vertices";
    for (int i = 0; i < n; ++i) os << " " << i << ":" << vf[i];
    os << ", edges";
    for (auto& e : edges) os << " (" << std::get<0>(e) << "," << std::get<1>(e) << "):" << std::get<2>(e);
    os << ")";
    std::map<Simplex, int> m2;
    std::vector<bool> keep(n, true);
    if (kind == 2 && !contiguous)
      for (int i = 0; i < n; ++i) keep[i] = rnd(0, 3) != 0;
    for (int i = 0; i < n; ++i) if (keep[i]) m2[Simplex{i}] = vf[i];
    for (auto& e : edges) {
      int a = std::get<0>(e), b = std::get<1>(e);
      if (!keep[a] || !keep[b]) continue;
      auto key = std::minmax(a, b);
      m2[Simplex{key.first, key.second}] = std::get<2>(e);
    }
    if (kind == 2) {
      os << " filtered to the vertices";
      for (int i = 0; i < n; ++i) if (keep[i]) os << " " << i;
    }
    log.push_back(os.str());
    using VP = boost::property<vertex_filtration_t, Fil>;
    using EP = boost::property<edge_filtration_t, Fil>;
    if (kind == 0) {
      using G = boost::adjacency_list<boost::vecS, boost::vecS, boost::directedS, VP, EP>;
      G g(n);
      for (int i = 0; i < n; ++i) boost::put(vertex_filtration_t(), g, i, mk(vf[i]));
      for (auto& e : edges) boost::add_edge(std::get<0>(e), std::get<1>(e), EP(mk(std::get<2>(e))), g);
      st.insert_graph(g);
    } else {
      using G = boost::adjacency_list<boost::vecS, boost::vecS, boost::undirectedS, VP, EP>;
      G g(n);
      for (int i = 0; i < n; ++i) boost::put(vertex_filtration_t(), g, i, mk(vf[i]));
      for (auto& e : edges) boost::add_edge(std::get<0>(e), std::get<1>(e), EP(mk(std::get<2>(e))), g);
      if (kind == 1) {
        st.insert_graph(g);
      } else {
        auto vpred = [&keep](typename G::vertex_descriptor v) { return (bool)keep[v]; };
        std::function<bool(typename G::vertex_descriptor)> vp = vpred;
        boost::filtered_graph<G, boost::keep_all, decltype(vp)> fg(g, boost::keep_all(), vp);
        st.insert_graph(fg);
      }
    }
    M = m2;
  }

  void step() {
    int r = rnd(0, 99);
    if (r < 15) op_insert_simplex();
    else if (r < 39) op_insert_subfaces();
    else if (r < 44) op_batch();
    else if (r < 56) op_remove_maximal();
    else if (r < 63) op_collapse();
    else if (r < 67) op_remove_star();
    else if (r < 72) op_prune_filtration();
    else if (r < 73) op_prune_filtration_inf();
    else if (r < 77) op_prune_dimension();
    else if (r < 78) { if (rnd(0, 2) == 0) op_clear(); }
    else if (r < 83) op_copy_move();
    else if (r < 86) op_reset_filtration();
    else if (r < 91) op_assign_filtration();
    else if (r < 94) op_expansion();
    else if (r < 96) op_expansion_with_blockers();
    else op_insert_graph();
    if (M.size() > 400) op_prune_dimension();
    if (M.size() > 400) op_clear();
  }

  // ------------------------------------------------------------------ flag histories (insert_edge_as_flag)
  // The complex stays the flag complex of its graph truncated at dimension dim_max; values follow a clock, so that
  // vertices and edges are inserted in the order of their filtration values (see the warning of insert_edge_as_flag).
  void flag_insert(long u, long v, int f, int dim_max) {
    std::map<Simplex, int> added;
    if (u == v) {
      if (!M.count(Simplex{u})) added[Simplex{u}] = f;
    } else if (dim_max == -1 || dim_max >= 1) {
      long a = std::min(u, v), b = std::max(u, v);
      std::vector<long> common;
      for (auto& p : M)
        if (p.first.size() == 1) {
          long w = p.first[0];
          if (w == a || w == b) continue;
          if (M.count(Simplex{std::min(w, a), std::max(w, a)}) && M.count(Simplex{std::min(w, b), std::max(w, b)}))
            common.push_back(w);
        }
      for (unsigned mask = 0; mask < (1u << common.size()); ++mask) {
        Simplex s{a, b};
        for (std::size_t i = 0; i < common.size(); ++i) if (mask >> i & 1) s.push_back(common[i]);
        std::sort(s.begin(), s.end());
        if (dim_max != -1 && (int)s.size() - 1 > dim_max) continue;
        bool clique = true;
        for (std::size_t i = 0; i < s.size() && clique; ++i)
          for (std::size_t j = i + 1; j < s.size() && clique; ++j)
            if (!(s[i] == a && s[j] == b) && !M.count(Simplex{s[i], s[j]})) clique = false;
        if (clique) added[s] = f;
      }
    }
    auto m2 = M;
    for (auto& p : added) m2[p.first] = p.second;
    if (!contiguous_ok(m2)) return;
    log.push_back("insert_edge_as_flag(" + std::to_string(u) + ", " + std::to_string(v) + ", " + std::to_string(f) +
                  ", " + std::to_string(dim_max) + ")");
    std::vector<SH> out(2, st.null_simplex());
    st.insert_edge_as_flag(static_cast<VH>(u), static_cast<VH>(v), mk(f), dim_max, out);
    M = m2;
    if (out.size() < 2 || out[0] != st.null_simplex() || out[1] != st.null_simplex())
      fail("insert_edge_as_flag: added_simplices was emptied");
    std::set<Simplex> got;
    for (std::size_t i = 2; i < out.size(); ++i) {
      Simplex s = simplex_of(st, out[i]);
      if (!got.insert(s).second) fail("insert_edge_as_flag: twice the same simplex in added_simplices: " + str(s));
      if (!added.count(s)) fail("insert_edge_as_flag: unexpected simplex in added_simplices: " + str(s));
    }
    if (got.size() != added.size())
      fail("insert_edge_as_flag: " + std::to_string(got.size()) + " added simplices, expected " +
           std::to_string(added.size()));
  }

  void remove_star_of(const Simplex& s) {
    auto m2 = M;
    for (auto& p : M) if (subset(s, p.first)) m2.erase(p.first);
    if (!contiguous_ok(m2)) return;
    std::vector<Simplex> star;
    for (SH c : st.star_simplex_range(st.find(tov(s)))) star.push_back(simplex_of(st, c));
    std::stable_sort(star.begin(), star.end(), [](const Simplex& a, const Simplex& b) { return a.size() > b.size(); });
    log.push_back("remove the star of " + str(s) + " from the top (" + std::to_string(star.size()) + " simplices)");
    for (auto& c : star) {
      st.remove_maximal_simplex(st.find(tov(c)));
      M.erase(c);
    }
    if (M != m2) fail("star_simplex_range did not give the star of " + str(s));
  }

  void run_flag(int steps) {
    if constexpr (O::link_nodes_by_label) {
      check("initial");
      const int dims[] = {-1, -1, 0, 1, 2, 2, 3, 4};
      int dim_max = dims[rnd(0, 7)];
      int clock = 0;
      for (int i = 0; i < steps; ++i) {
        std::size_t before = log.size();
        int f = storeF ? clock / 3 : 0;
        std::vector<long> verts;
        std::vector<Simplex> edges;
        for (auto& p : M) {
          if (p.first.size() == 1) verts.push_back(p.first[0]);
          if (p.first.size() == 2) edges.push_back(p.first);
        }
        int r = rnd(0, 999);
        if (r < 150 || (verts.size() < 4 && r < 500)) {
          long v = contiguous ? (long)verts.size() : pool[rnd(0, (int)pool.size() - 1)];
          // "the behaviour is undefined if called on an existing simplex": only new vertices
          if (!M.count(Simplex{v}) && v < (contiguous ? (long)pool.size() : (1L << 62))) flag_insert(v, v, f, dim_max);
        } else if (r < 760) {
          if (verts.size() >= 2) {
            long a = verts[rnd(0, (int)verts.size() - 1)], b = verts[rnd(0, (int)verts.size() - 1)];
            if (a != b && !M.count(Simplex{std::min(a, b), std::max(a, b)})) flag_insert(a, b, f, dim_max);
          }
        } else if (r < 900) {
          if (!edges.empty()) remove_star_of(edges[rnd(0, (int)edges.size() - 1)]);
        } else if (r < 920) {
          if (!verts.empty()) remove_star_of(Simplex{verts[rnd(0, (int)verts.size() - 1)]});
        } else if (r < 945) {
          int t = storeF ? (rnd(0, 9) ? f - rnd(0, 4) : rnd(-1, f)) : rnd(-1, 0);
          if (!storeF && rnd(0, 5)) t = 0;
          auto m2 = M;
          bool modified = false;
          for (auto& p : M) if (p.second > t) { m2.erase(p.first); modified = true; }
          if (contiguous_ok(m2)) {
            log.push_back("prune_above_filtration(" + std::to_string(t) + ")");
            bool res = st.prune_above_filtration(Fil(t));
            M = m2;
            if (res != modified) fail("prune_above_filtration returns " + std::to_string(res));
          }
        } else if (r < 995) {
          op_copy_move();
        } else if (r < 998) {
          op_clear();
        } else {
          dim_max = dims[rnd(0, 7)];
          op_clear();
        }
        ++clock;
        if (log.size() != before) check("after step " + std::to_string(i) + " (" + log.back() + ")");
      }
    }
  }

  void run(int steps) {
    check("initial");
    for (int i = 0; i < steps; ++i) {
      std::size_t before = log.size();
      step();
      if (log.size() != before) check("after step " + std::to_string(i) + " (" + log.back() + ")");
    }
  }
};

static bool FLAG_MODE = false;

template <class O>
long run_config(const char* name, std::uint64_t seed, int steps, bool allowB) {
  long n = 0;
  constexpr bool needs_contiguous = O::contiguous_vertices;
  {
    Harness<Simplex_tree<O>> h(name, seed * 2, true);
    try { if (FLAG_MODE) h.run_flag(steps); else h.run(steps); } catch (const Failure&) { throw; } catch (const std::exception& e) { h.fail(std::string("exception: ") + e.what()); } catch (const char* e) { h.fail(std::string("exception (GUDHI_CHECK): ") + e); }
    n += h.nb_checks;
    if (std::getenv("FUZZ_DUMP")) { for (auto& l : h.log) std::cout << "    " << l << "\n"; std::cout << "  final size " << h.M.size() << " dim " << h.mdim() << " mean size " << h.sum_size / std::max(1L, h.nb_checks) << " max size " << h.max_size << " steps per dimension -1..:"; for (long d : h.dim_hist) std::cout << " " << d; std::cout << "\n"; }
  }
  if (!needs_contiguous && allowB) {
    Harness<Simplex_tree<O>> h(name, seed * 2 + 1, false);
    try { if (FLAG_MODE) h.run_flag(steps); else h.run(steps); } catch (const Failure&) { throw; } catch (const std::exception& e) { h.fail(std::string("exception: ") + e.what()); } catch (const char* e) { h.fail(std::string("exception (GUDHI_CHECK): ") + e); }
    n += h.nb_checks;
  }
  return n;
}

#ifndef CFG
#error "compile with -DCFG=<one of the O_... option structs above>"
#endif
#define STR2(x) #x
#define STR(x) STR2(x)

int main(int argc, char** argv) {
  std::uint64_t first = argc > 1 ? std::strtoull(argv[1], nullptr, 10) : 1;
  int nb = argc > 2 ? std::atoi(argv[2]) : 20;
  int steps = argc > 3 ? std::atoi(argv[3]) : 150;
  FLAG_MODE = argc > 4 && std::string(argv[4]) == "flag";
  long checks = 0;
  int failures = 0;
  for (std::uint64_t s = first; s < first + nb; ++s) {
    try { checks += run_config<CFG>(STR(CFG), s, steps, true); }
    catch (const Failure&) { std::cout << "seed " << s << " config " << STR(CFG) << "\n"; ++failures; if (failures >= 3) break; }
  }
  std::cout << (failures ? "FAIL" : "PASS") << " " << STR(CFG) << ": seeds " << first << ".." << first + nb - 1 << ", " << steps
            << " steps, " << checks << " full-state comparisons, " << failures << " failing histories" << std::endl;
  return failures ? 1 : 0;
}

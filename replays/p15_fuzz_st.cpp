// fuzz_st.cpp - randomized differential test of Gudhi::Simplex_tree for property C15
// (copies, moves, swaps, serialisation and text round trips give equal and independent objects).
//
// Reference: a brute force model  std::map<sorted vertex vector, {filtration, key, data}>  per tree.
// A pool of NSLOT heap allocated trees is driven through random histories (insertions, removals, prunings,
// expansions, filtration/key/data changes, clear) interleaved with copy construction, copy assignment, move
// construction, move assignment, self assignments, std::swap, destruction, serialize/deserialize, operator<< / >>,
// and the converting copy constructor. After EVERY step EVERY slot is compared with its model (so that an operation on
// one tree that disturbs another one is seen), through complex_simplex_range, find, filtration, key, simplex_data,
// dimension, num_simplices, num_vertices, boundary / star / cofaces ranges and filtration_simplex_range.
//
// Build: g++ -std=gnu++17 -O1 -g -fsanitize=address,undefined $(ls -d /repo/src/*/include | sed 's/^/-I/') \
//          fuzz_st.cpp -o fuzz_st -ltbb        (also built with -DNDEBUG -O2 and with -DGUDHI_DEBUG)
// Run:   ./fuzz_st [first_seed] [number_of_seeds] [steps_per_seed]
//
// -DPART=1..5 selects a fifth of the option sets (compile time), PART=0 (default) all of them.
//
// RESULT - nothing found by this program (the only simplex tree defect of this study, deserialize() reading past a
// truncated buffer, is in defect_1.cpp: truncated buffers are not given to deserialize() here, only too long announced
// sizes on buffers that are really that long):
//   * -O1 -fsanitize=address,undefined: the 32 combinations Opt<0>..Opt<31> of store_key / store_filtration /
//     contiguous_vertices / link_nodes_by_label / stable_simplex_handles (int / double / uint32) and the 12 sets of PART 5
//     (heap owning Simplex_data with 6 flag combinations; short/float/short, long/int/uint64, long/long double/int,
//     short/float/uint8 types): seeds 100..159 and 7000..7119 x 400 steps each (PART 5: 1..40 x 300 and 7000..7119 x 400):
//     0 failures, no sanitizer report, no leak.
//   * -O2 -DNDEBUG without sanitizer: PART 2, 4, 5 (28 option sets), seeds 500..649 x 400 steps: 0 failures.

#include <gudhi/Simplex_tree.h>

#include <algorithm>
#include <cstdint>
#include <cstdlib>
#include <iostream>
#include <map>
#include <memory>
#include <random>
#include <set>
#include <sstream>
#include <string>
#include <thread>
#include <vector>

using Gudhi::Simplex_tree;

template <int BITS, class VH = int, class FV = double, class KEY = std::uint32_t>
struct Opt {
  typedef Gudhi::linear_indexing_tag Indexing_tag;
  typedef VH Vertex_handle;
  typedef FV Filtration_value;
  typedef KEY Simplex_key;
  static const bool store_key = (BITS & 1) != 0;
  static const bool store_filtration = (BITS & 2) != 0;
  static const bool contiguous_vertices = (BITS & 4) != 0;
  static const bool link_nodes_by_label = (BITS & 8) != 0;
  static const bool stable_simplex_handles = (BITS & 16) != 0;
};
template <int BITS, class VH = int, class FV = double, class KEY = std::uint32_t>
struct OptD : Opt<BITS, VH, FV, KEY> {
  typedef std::vector<int> Simplex_data;  // heap owning: aliasing / double free would be seen by ASan
};

struct Fail {
  std::string msg;
};
#define CHECK(c, m)                                                         \
  do {                                                                      \
    if (!(c)) {                                                             \
      std::ostringstream os_;                                               \
      os_ << "line " << __LINE__ << ": " << #c << " : " << m;               \
      throw Fail{os_.str()};                                                \
    }                                                                       \
  } while (0)

template <class O>
struct Fuzz {
  using ST = Simplex_tree<O>;
  using VH = typename ST::Vertex_handle;
  using FV = typename ST::Filtration_value;
  using KEY = typename ST::Simplex_key;
  using SH = typename ST::Simplex_handle;
  using Data = typename ST::Simplex_data;
  static constexpr bool has_data = !std::is_same_v<Data, Gudhi::No_simplex_data>;
  using S = std::vector<VH>;
  struct Val {
    FV f;
    KEY k;
    std::vector<int> d;
  };
  using Model = std::map<S, Val>;
  struct Slot {
    std::unique_ptr<ST> t;
    Model m;
  };
  static constexpr int NSLOT = 4;
  Slot slot[NSLOT];
  std::mt19937 rng;
  std::vector<VH> labels;
  std::string log;
  bool verbose = false;

  int rnd(int n) { return (int)(rng() % (unsigned)n); }
  FV rfil() {
    if constexpr (!O::store_filtration) return FV(0);
    if constexpr (std::is_floating_point_v<FV>) {
      int r = rnd(20);
      if (r == 0) return std::numeric_limits<FV>::infinity();
      if (r == 1) return -std::numeric_limits<FV>::infinity();
      if (r == 2) return FV(0.1) * FV(rnd(7));  // not exactly representable
      if (r == 3) return FV(1) / FV(3);
      return FV(rnd(9) - 2);
    } else {
      return FV(rnd(9) - 2);
    }
  }
  static KEY nullkey() { return ST::null_key(); }

  // ---------------------------------------------------------------- model helpers
  static int mdim(const Model& m) {
    int d = -1;
    for (auto& p : m) d = std::max(d, (int)p.first.size() - 1);
    return d;
  }
  static bool contiguous_ok(const Model& m) {
    if (!O::contiguous_vertices) return true;
    VH n = 0;
    for (auto& p : m)
      if (p.first.size() == 1) {
        if (p.first[0] != n) return false;
        ++n;
      }
    return true;
  }
  static std::vector<S> facets(const S& s) {
    std::vector<S> r;
    if (s.size() < 2) return r;
    for (size_t i = 0; i < s.size(); ++i) {
      S f = s;
      f.erase(f.begin() + i);
      r.push_back(f);
    }
    return r;
  }
  static bool is_face(const S& a, const S& b) {  // a subset of b
    return std::includes(b.begin(), b.end(), a.begin(), a.end());
  }
  static void m_insert_subfaces(Model& m, const S& s, FV f) {
    size_t n = s.size();
    for (unsigned mask = 1; mask < (1u << n); ++mask) {
      S face;
      for (size_t i = 0; i < n; ++i)
        if (mask & (1u << i)) face.push_back(s[i]);
      auto it = m.find(face);
      if (it == m.end())
        m[face] = Val{f, nullkey(), {}};
      else if (f < it->second.f)
        it->second.f = f;
    }
  }
  static void m_non_decreasing(Model& m) {
    std::vector<typename Model::iterator> its;
    for (auto it = m.begin(); it != m.end(); ++it) its.push_back(it);
    std::stable_sort(its.begin(), its.end(), [](auto a, auto b) { return a->first.size() < b->first.size(); });
    for (auto it : its)
      for (auto& fa : facets(it->first)) {
        auto jt = m.find(fa);
        if (jt != m.end() && it->second.f < jt->second.f) it->second.f = jt->second.f;
      }
  }

  // ---------------------------------------------------------------- comparison tree / model
  template <class Tree, class M>
  static void compare(const Tree& t, const M& m, bool keys, bool data, const char* what) {
    using TS = std::vector<typename Tree::Vertex_handle>;
    size_t n = 0;
    std::set<TS> seen;
    for (auto sh : t.complex_simplex_range()) {
      TS s;
      for (auto v : t.simplex_vertex_range(sh)) s.push_back(v);
      CHECK(std::is_sorted(s.begin(), s.end(), std::greater<typename Tree::Vertex_handle>()), what);
      std::reverse(s.begin(), s.end());
      CHECK(seen.insert(s).second, what << " duplicate simplex");
      S key(s.begin(), s.end());
      auto it = m.find(key);
      CHECK(it != m.end(), what << " simplex not in model, dim " << s.size() - 1);
      if constexpr (Tree::Options::store_filtration) {
        CHECK(t.filtration(sh) == (typename Tree::Filtration_value)(it->second.f),
              what << " filtration " << t.filtration(sh) << " != " << it->second.f);
      }
      if constexpr (Tree::Options::store_key) {
        if (keys) CHECK(t.key(sh) == (typename Tree::Simplex_key)it->second.k, what << " key");
      }
      if constexpr (!std::is_same_v<typename Tree::Simplex_data, Gudhi::No_simplex_data>) {
        if (data) CHECK(t.simplex_data(sh) == it->second.d, what << " data");
      }
      CHECK(t.dimension(sh) == (int)s.size() - 1, what << " dimension(sh)");
      CHECK(t.find(s) == sh, what << " find");
      ++n;
    }
    CHECK(n == m.size(), what << " number of simplices " << n << " != " << m.size());
    CHECK(t.num_simplices() == m.size(), what << " num_simplices");
    size_t nv = 0;
    for (auto& p : m) nv += p.first.size() == 1;
    CHECK(t.num_vertices() == nv, what << " num_vertices");
    CHECK(t.is_empty() == m.empty(), what << " is_empty");
    CHECK(t.upper_bound_dimension() >= mdim(m), what << " upper_bound_dimension");
    CHECK(t.dimension() == mdim(m), what << " dimension " << t.dimension() << " != " << mdim(m));
    {
      std::vector<typename Tree::Vertex_handle> vs;
      for (auto v : t.complex_vertex_range()) vs.push_back(v);
      CHECK(vs.size() == nv, what << " complex_vertex_range");
    }
  }

  void deep_check(const ST& t, const Model& m, const char* what) {
    compare(t, m, true, true, what);
    if (m.empty()) return;
    // one random simplex: boundary, star, cofaces
    auto it = m.begin();
    std::advance(it, rnd((int)m.size()));
    const S& s = it->first;
    SH sh = t.find(s);
    CHECK(sh != t.null_simplex(), what);
    {
      std::set<S> got, exp;
      for (auto b : t.boundary_simplex_range(sh)) {
        S f;
        for (auto v : t.simplex_vertex_range(b)) f.push_back(v);
        std::reverse(f.begin(), f.end());
        got.insert(f);
      }
      for (auto& f : facets(s)) exp.insert(f);
      CHECK(got == exp, what << " boundary");
    }
    for (int codim = 0; codim <= 2; ++codim) {
      std::set<S> got, exp;
      for (auto c : t.cofaces_simplex_range(sh, codim)) {
        S f;
        for (auto v : t.simplex_vertex_range(c)) f.push_back(v);
        std::reverse(f.begin(), f.end());
        CHECK(got.insert(f).second, what << " coface twice");
      }
      for (auto& p : m)
        if (is_face(s, p.first) && (codim == 0 || p.first.size() == s.size() + codim)) exp.insert(p.first);
      CHECK(got == exp, what << " cofaces codim " << codim << " got " << got.size() << " exp " << exp.size());
    }
    // filtration order (the cache has to be cleared by the user after modifications)
    t.clear_filtration();
    {
      std::set<S> done;
      bool first = true;
      FV last{};
      for (auto fsh : t.filtration_simplex_range()) {
        S f;
        for (auto v : t.simplex_vertex_range(fsh)) f.push_back(v);
        std::reverse(f.begin(), f.end());
        if constexpr (O::store_filtration) {
          if (!first) CHECK(!(t.filtration(fsh) < last), what << " filtration order");
          last = t.filtration(fsh);
          first = false;
        }
        for (auto& fa : facets(f)) CHECK(done.count(fa), what << " face after coface in filtration_simplex_range");
        done.insert(f);
      }
      CHECK(done.size() == m.size(), what << " filtration_simplex_range size");
    }
    t.clear_filtration();
  }

  void check_all(const char* after) {
    for (int i = 0; i < NSLOT; ++i) {
      std::string w = std::string("after ") + after + " slot " + std::to_string(i);
      deep_check(*slot[i].t, slot[i].m, w.c_str());
    }
  }

  // ---------------------------------------------------------------- random simplex
  S random_simplex(const Model& m, int maxdim = 3) {
    int d = rnd(maxdim + 1);
    std::set<VH> vs;
    if constexpr (O::contiguous_vertices) {
      VH n = 0;
      for (auto& p : m) n += p.first.size() == 1;
      // labels 0..n allowed (n is the next new vertex, at most one new vertex)
      for (int i = 0; i <= d; ++i) vs.insert((VH)rnd((int)n + 1));
    } else {
      for (int i = 0; i <= d; ++i) vs.insert(labels[rnd((int)labels.size())]);
    }
    return S(vs.begin(), vs.end());
  }

  // ---------------------------------------------------------------- mutations
  void mutate(int i) {
    ST& t = *slot[i].t;
    Model& m = slot[i].m;
    int op = rnd(16);
    switch (op) {
      case 0:
      case 1:
      case 2: {
        S s = random_simplex(m);
        FV f = rfil();
        log += " ins_sub";
        auto r = t.insert_simplex_and_subfaces(s, f);
        bool was = m.count(s);
        CHECK(r.second == !was, "insert_simplex_and_subfaces bool");
        m_insert_subfaces(m, s, f);
        break;
      }
      case 3: {  // insert_simplex with all facets present
        S s = random_simplex(m);
        bool ok = true;
        FV f = rfil();
        for (auto& fa : facets(s)) {
          auto it = m.find(fa);
          if (it == m.end()) {
            ok = false;
            break;
          }
          if (f < it->second.f) f = it->second.f;
        }
        if (!ok) break;
        log += " ins";
        auto it = m.find(s);
        auto r = t.insert_simplex(s, f);
        if (it == m.end()) {
          CHECK(r.second, "insert_simplex bool");
          m[s] = Val{f, nullkey(), {}};
        } else {
          CHECK(!r.second, "insert_simplex bool 2");
          if (f < it->second.f) it->second.f = f;  // stays monotone because f >= facets
        }
        break;
      }
      case 4:
      case 5: {  // remove a maximal simplex
        if (m.empty()) break;
        auto it = m.begin();
        std::advance(it, rnd((int)m.size()));
        S s = it->first;
        // climb to a maximal coface
        for (bool again = true; again;) {
          again = false;
          for (auto& p : m)
            if (p.first.size() == s.size() + 1 && is_face(s, p.first)) {
              s = p.first;
              again = true;
              break;
            }
        }
        Model m2 = m;
        m2.erase(s);
        if (!contiguous_ok(m2)) break;
        log += " rm_max";
        t.remove_maximal_simplex(t.find(s));
        m = m2;
        break;
      }
      case 6: {
        if constexpr (O::store_filtration) {
        FV f = rfil();
        Model m2;
        for (auto& p : m)
          if (!(f < p.second.f)) m2.insert(p);
        if (f == (std::numeric_limits<FV>::has_infinity ? std::numeric_limits<FV>::infinity() : std::numeric_limits<FV>::max())) m2 = m;  // documented: nothing is above infinity
        if (!contiguous_ok(m2)) break;
        log += " prune_f";
        bool r = t.prune_above_filtration(f);
        CHECK(r == (m2.size() != m.size()), "prune_above_filtration return");
        m = m2;
        }
        break;
      }
      case 7: {
        int d = rnd(5) - 1;
        Model m2;
        for (auto& p : m)
          if ((int)p.first.size() - 1 <= d) m2.insert(p);
        log += " prune_d";
        bool r = t.prune_above_dimension(d);
        CHECK(r == (m2.size() != m.size()), "prune_above_dimension return");
        m = m2;
        break;
      }
      case 8: {  // assign_filtration + make_filtration_non_decreasing
        if constexpr (O::store_filtration) {
        if (m.empty()) break;
        auto it = m.begin();
        std::advance(it, rnd((int)m.size()));
        FV f = rfil();
        log += " assign_f";
        t.assign_filtration(t.find(it->first), f);
        it->second.f = f;
        Model before = m;
        m_non_decreasing(m);
        bool changed = false;
        for (auto a = m.begin(), b = before.begin(); a != m.end(); ++a, ++b) changed |= !(a->second.f == b->second.f);
        bool r = t.make_filtration_non_decreasing();
        CHECK(r == changed, "make_filtration_non_decreasing return");
        // a simplex must not be below its faces for the other operations: lower the faces? no: the model is monotone
        // upwards now, but the assigned simplex can be below its faces only if f was raised back by the call above.
        }
        break;
      }
      case 9: {
        if constexpr (O::store_key) {
          if (m.empty()) break;
          auto it = m.begin();
          std::advance(it, rnd((int)m.size()));
          KEY k = (KEY)rnd(100);
          log += " assign_k";
          t.assign_key(t.find(it->first), k);
          it->second.k = k;
        }
        break;
      }
      case 10: {
        if constexpr (has_data) {
          if (m.empty()) break;
          auto it = m.begin();
          std::advance(it, rnd((int)m.size()));
          std::vector<int> d(rnd(40), rnd(1000));
          log += " data";
          t.simplex_data(t.find(it->first)) = d;
          it->second.d = d;
        }
        break;
      }
      case 11: {  // 1-skeleton then expansion
        if (rnd(3)) break;
        int d = 1 + rnd(3);
        log += " expansion";
        t.prune_above_dimension(1);
        Model g;
        for (auto& p : m)
          if (p.first.size() <= 2) g.insert(p);
        m = g;
        // cliques
        for (int dim = 2; dim <= d; ++dim) {
          Model add;
          for (auto& p : m) {
            if ((int)p.first.size() != dim) continue;
            std::set<VH> cand;
            for (auto& q : m)
              if (q.first.size() == 1 && q.first[0] > p.first.back()) cand.insert(q.first[0]);
            for (VH v : cand) {
              S s = p.first;
              s.push_back(v);
              bool ok = true;
              FV f = p.second.f;
              for (auto& fa : facets(s)) {
                auto jt = m.find(fa);
                if (jt == m.end()) {
                  ok = false;
                  break;
                }
                if (f < jt->second.f) f = jt->second.f;
              }
              if (ok) add[s] = Val{f, nullkey(), {}};
            }
          }
          for (auto& p : add) m.insert(p);
        }
        t.expansion(d);
        break;
      }
      case 12: {
        if (rnd(4)) break;
        log += " clear";
        t.clear();
        m.clear();
        break;
      }
      case 13: {
        if constexpr (O::store_filtration) {
        if (rnd(2)) break;
        FV f = rfil();
        int md = rnd(3);
        log += " reset_f";
        t.reset_filtration(f, md);
        for (auto& p : m)
          if ((int)p.first.size() - 1 >= md) p.second.f = f;
        m_non_decreasing(m);
        t.make_filtration_non_decreasing();
        }
        break;
      }
      case 14: {  // insert_batch_vertices
        if (rnd(2)) break;
        std::set<VH> vs;
        if constexpr (O::contiguous_vertices) {
          VH n = 0;
          for (auto& p : m) n += p.first.size() == 1;
          int k = rnd(3);
          for (int j = 0; j < k; ++j) vs.insert(n + j);
        } else {
          int k = rnd(3);
          for (int j = 0; j < k; ++j) vs.insert(labels[rnd((int)labels.size())]);
        }
        if (vs.empty()) break;
        FV f = rfil();
        // keep the filtration monotone: vertices below everything is always fine since they have no coface yet
        log += " batch";
        std::vector<VH> v(vs.begin(), vs.end());
        t.insert_batch_vertices(v, f);
        for (VH x : v)
          if (!m.count(S{x})) m[S{x}] = Val{f, nullkey(), {}};  // present vertices are documented to be left alone
        break;
      }
      default:
        break;
    }
  }

  // ---------------------------------------------------------------- C15 operations
  void c15() {
    int i = rnd(NSLOT), j = rnd(NSLOT);
    int op = rnd(14);
    switch (op) {
      case 0: {  // copy construct, destroy old j
        if (i == j) break;
        log += " copyctor";
        slot[j].t.reset(new ST(*slot[i].t));
        slot[j].m = slot[i].m;
        CHECK(*slot[j].t == *slot[i].t, "copy not == source");
        break;
      }
      case 1: {  // copy assign (includes self)
        log += (i == j ? " selfcopy" : " copyassign");
        ST& a = *slot[j].t;
        a = *slot[i].t;
        slot[j].m = slot[i].m;
        CHECK(*slot[j].t == *slot[i].t, "copy assigned not == source");
        break;
      }
      case 2: {  // move construct, the source stays in the pool as an empty tree
        if (i == j) break;
        log += " movector";
        ST* n = new ST(std::move(*slot[i].t));
        slot[j].t.reset(n);
        slot[j].m = slot[i].m;
        slot[i].m.clear();
        break;
      }
      case 3: {  // move assign (includes self)
        log += (i == j ? " selfmove" : " moveassign");
        ST& a = *slot[j].t;
        ST& b = *slot[i].t;
        a = std::move(b);
        if (i != j) {
          slot[j].m = slot[i].m;
          slot[i].m.clear();
        }
        break;
      }
      case 4: {
        log += " swap";
        std::swap(*slot[i].t, *slot[j].t);
        std::swap(slot[i].m, slot[j].m);
        break;
      }
      case 5: {  // move construct then destroy the moved-from source at once
        if (i == j) break;
        log += " movector+destroy";
        ST* n = new ST(std::move(*slot[i].t));
        slot[i].t.reset(new ST());
        slot[j].t.reset(n);
        slot[j].m = slot[i].m;
        slot[i].m.clear();
        break;
      }
      case 6: {  // copy, destroy the source
        if (i == j) break;
        log += " copy+destroy";
        ST* n = new ST(*slot[i].t);
        slot[i].t.reset(n);
        break;
      }
      case 7:
      case 8: {  // serialize / deserialize
        log += " serialize";
        const ST& a = *slot[i].t;
        std::size_t sz = a.get_serialization_size();
        std::unique_ptr<char[]> buf(new char[sz]);
        a.serialize(buf.get(), sz);
        {
          bool thrown = false;
          std::unique_ptr<char[]> big(new char[sz + 8]);
          try {
            a.serialize(big.get(), sz + 1 + rnd(8));
          } catch (const std::invalid_argument&) {
            thrown = true;
          }
          CHECK(thrown, "serialize with a too large announced size did not throw");
        }
        std::unique_ptr<ST> n(new ST());
        n->deserialize(buf.get(), sz);
        CHECK(*n == a, "deserialized != source");
        compare(*n, slot[i].m, false, false, "deserialized");
        if constexpr (O::store_key) {
          for (auto sh : n->complex_simplex_range()) CHECK(n->key(sh) == nullkey(), "deserialized key");
        }
        {  // announced size larger than what the content needs: must throw (buffer really that large)
          std::unique_ptr<char[]> big(new char[sz + 8]());
          std::copy(buf.get(), buf.get() + sz, big.get());
          ST e;
          bool thrown = false;
          try {
            e.deserialize(big.get(), sz + 1 + rnd(8));
          } catch (const std::invalid_argument&) {
            thrown = true;
          }
          CHECK(thrown, "deserialize of a too long buffer did not throw");
        }
        if (rnd(2)) {
          slot[j].t = std::move(n);
          slot[j].m = slot[i].m;
          for (auto& p : slot[j].m) {
            p.second.k = nullkey();
            p.second.d.clear();
          }
        }
        break;
      }
      case 9: {  // text round trip
        log += " text";
        const ST& a = *slot[i].t;
        a.clear_filtration();
        std::stringstream ss;
        ss << a;
        a.clear_filtration();
        std::unique_ptr<ST> n(new ST());
        ss >> *n;
        CHECK(*n == a, "text round trip: re-read tree != source\n" << ss.str());
        compare(*n, slot[i].m, false, false, "text");
        if (rnd(2)) {
          slot[j].t = std::move(n);
          slot[j].m = slot[i].m;
          for (auto& p : slot[j].m) {
            p.second.k = nullkey();
            p.second.d.clear();
          }
        }
        break;
      }
      case 10: {  // converting copy constructor to other options and back
        log += " convert";
        using F2 = std::conditional_t<std::is_same_v<FV, long double>, long double, double>;
        using O2 = Opt<(1 | 2 | 8 | 16), long, F2, int>;
        using O3 = Opt<(1 | 2), long, F2, int>;
        const ST& a = *slot[i].t;
        auto tr = [](const FV& f) { return (F2)f; };
        Simplex_tree<O2> b(a, tr);
        Simplex_tree<O3> c(a, tr);
        compare(b, slot[i].m, false, false, "converted O2");
        compare(c, slot[i].m, false, false, "converted O3");
        CHECK(b == c, "converted trees differ");
        if constexpr (O::store_key) {
          for (auto sh : b.complex_simplex_range()) {
            S s;
            for (auto v : b.simplex_vertex_range(sh)) s.push_back((VH)v);
            std::reverse(s.begin(), s.end());
            CHECK((KEY)b.key(sh) == slot[i].m.at(s).k, "converted key");
          }
        }
        // back
        auto tr2 = [](const F2& f) { return (FV)f; };
        std::unique_ptr<ST> n(new ST(b, tr2));
        compare(*n, slot[i].m, O::store_key, false, "converted back");
        // the intermediate is destroyed first when leaving; n must survive
        if (rnd(2)) {
          slot[j].t = std::move(n);
          slot[j].m = slot[i].m;
          for (auto& p : slot[j].m) p.second.d.clear();
        }
        break;
      }
      case 11: {  // destroy and recreate
        log += " destroy";
        slot[i].t.reset(new ST());
        slot[i].m.clear();
        break;
      }
      case 12: {  // copy with an initialised filtration cache in the source, then use both
        if (i == j) break;
        log += " copy_cached";
        slot[i].t->initialize_filtration();
        slot[j].t.reset(new ST(*slot[i].t));
        slot[j].m = slot[i].m;
        // the source keeps a valid cache
        size_t n = 0;
        for (auto sh : slot[i].t->filtration_simplex_range()) {
          (void)slot[i].t->filtration(sh);
          ++n;
        }
        CHECK(n == slot[i].m.size(), "cache of the source");
        slot[i].t->clear_filtration();
        break;
      }
      case 13: {  // move with an initialised filtration cache: the cache moves along, handles stay valid
        if (i == j) break;
        log += " move_cached";
        slot[i].t->initialize_filtration();
        ST* n = new ST(std::move(*slot[i].t));
        slot[j].t.reset(n);
        slot[j].m = slot[i].m;
        slot[i].m.clear();
        size_t cnt = 0;
        for (auto sh : n->filtration_simplex_range()) {
          S s;
          for (auto v : n->simplex_vertex_range(sh)) s.push_back(v);
          std::reverse(s.begin(), s.end());
          CHECK(slot[j].m.count(s), "moved cache");
          ++cnt;
        }
        CHECK(cnt == slot[j].m.size(), "moved cache size");
        n->clear_filtration();
        // the source must give an empty range
        size_t c2 = 0;
        for (auto sh : slot[i].t->filtration_simplex_range()) {
          (void)sh;
          ++c2;
        }
        CHECK(c2 == 0, "moved-from tree has a non empty filtration range");
        break;
      }
    }
  }

  bool run(unsigned seed, int steps) {
    rng.seed(seed);
    labels = {0, 1, 2, 3, 5, 8, 100};
    if (sizeof(VH) >= 4) labels.push_back(std::numeric_limits<VH>::max() - 1);
    if (seed % 3 == 0) labels = {0, 1, 2, 3, 4, 5};
    for (auto& s : slot) {
      s.t.reset(new ST());
      s.m.clear();
    }
    log.clear();
    try {
      check_all("init");
      for (int step = 0; step < steps; ++step) {
        size_t mark = log.size();
        if (rnd(3) == 0)
          c15();
        else
          mutate(rnd(NSLOT));
        std::string last = log.substr(mark);
        check_all(last.c_str());
      }
    } catch (const Fail& f) {
      std::cout << "FAIL seed " << seed << " : " << f.msg << "\n  history:" << log << std::endl;
      return false;
    } catch (const std::exception& e) {
      std::cout << "FAIL seed " << seed << " : exception " << e.what() << "\n  history:" << log << std::endl;
      return false;
    }
    for (auto& s : slot) s.t.reset();
    return true;
  }
};

template <class O>
int run_cfg(const char* name, unsigned first, int nseeds, int steps) {
  int bad = 0;
  for (int s = 0; s < nseeds && bad < 3; ++s) {
    Fuzz<O> f;
    if (!f.run(first + s, steps)) {
      ++bad;
      std::cout << "   ^ configuration " << name << std::endl;
    }
  }
  std::cout << name << ": " << nseeds << " seeds x " << steps << " steps, failures " << bad << std::endl;
  return bad;
}

#define RUN(...) bad += run_cfg<__VA_ARGS__>(#__VA_ARGS__, first, nseeds, steps)

int main(int argc, char** argv) {
  unsigned first = argc > 1 ? std::atoi(argv[1]) : 1;
  int nseeds = argc > 2 ? std::atoi(argv[2]) : 20;
  int steps = argc > 3 ? std::atoi(argv[3]) : 300;
  int bad = 0;
#ifndef PART
#define PART 0
#endif
#if PART == 0 || PART == 1
  RUN(Opt<0>);
  RUN(Opt<1>);
  RUN(Opt<2>);
  RUN(Opt<3>);
  RUN(Opt<4>);
  RUN(Opt<5>);
  RUN(Opt<6>);
  RUN(Opt<7>);
#endif
#if PART == 0 || PART == 2
  RUN(Opt<8>);
  RUN(Opt<9>);
  RUN(Opt<10>);
  RUN(Opt<11>);
  RUN(Opt<12>);
  RUN(Opt<13>);
  RUN(Opt<14>);
  RUN(Opt<15>);
#endif
#if PART == 0 || PART == 3
  RUN(Opt<16>);
  RUN(Opt<17>);
  RUN(Opt<18>);
  RUN(Opt<19>);
  RUN(Opt<20>);
  RUN(Opt<21>);
  RUN(Opt<22>);
  RUN(Opt<23>);
#endif
#if PART == 0 || PART == 4
  RUN(Opt<24>);
  RUN(Opt<25>);
  RUN(Opt<26>);
  RUN(Opt<27>);
  RUN(Opt<28>);
  RUN(Opt<29>);
  RUN(Opt<30>);
  RUN(Opt<31>);
#endif
#if PART == 0 || PART == 5
  RUN(OptD<3>);
  RUN(OptD<11>);
  RUN(OptD<19>);
  RUN(OptD<27>);
  RUN(OptD<31>);
  RUN(OptD<0>);
  RUN(Opt<3, short, float, short>);
  RUN(Opt<27, short, float, short>);
  RUN(Opt<3, long, int, std::uint64_t>);
  RUN(Opt<27, long, int, std::uint64_t>);
  RUN(Opt<31, long, long double, int>);
  RUN(Opt<7, short, float, std::uint8_t>);
#endif
  std::cout << (bad ? "FAIL" : "PASS") << std::endl;
  return bad ? 1 : 0;
}

// Defect 5 (minor): Matrix::set_characteristic always warns "Characteristic already initialised" on a default
// constructed Z_p matrix, and the debug check "characteristic not specified" of insert_boundary can never fire.
// Both compare the characteristic with Matrix::get_null_value<Characteristic>() == (unsigned)-1 (Matrix.h:1527,
// 1541, 1557, 1575, 1595), but a Column_zp_settings built without characteristic holds Zp_field_operators(0),
// i.e. the "not set" value is 0.
//
// Build:  g++ -std=gnu++17 -O1 -g -fsanitize=address,undefined $(ls -d /tmp/seed/P05/src/*/include | sed 's/^/-I/') \
//             defect_5.cpp -o defect_5 && ./defect_5
#include <iostream>
#include <sstream>
#include <sys/wait.h>
#include <unistd.h>
#include <gudhi/Matrix.h>

using namespace Gudhi::persistence_matrix;

struct RU_zp_options : Default_options<Column_types::INTRUSIVE_SET, false> {
  static const bool has_column_pairings = true;
  static const bool can_retrieve_representative_cycles = true;
};
using M = Matrix<RU_zp_options>;
using Boundary = std::vector<std::pair<unsigned int, unsigned int> >;

int main() {
  int bad = 0;

  // (a) the documented way to give the characteristic to a default constructed matrix prints a warning
  std::ostringstream captured;
  std::streambuf* old = std::cerr.rdbuf(captured.rdbuf());
  {
    M m;                      // "Default constructor. Initializes an empty matrix."
    m.set_characteristic(5);  // "Should be used if no characteristic could be specified at the creation"
    m.insert_boundary(Boundary{});
  }
  std::cerr.rdbuf(old);
  std::cout << "(a) M m; m.set_characteristic(5); wrote on std::cerr: \"" << captured.str() << "\" (expected nothing)\n";
  if (!captured.str().empty()) ++bad;

  // (b) forgetting the characteristic: in debug mode insert_boundary promises
  //     std::logic_error("... Columns cannot be initialized if the coefficient field characteristic is not specified.")
  pid_t pid = fork();
  if (pid == 0) {
    if (!freopen("/dev/null", "w", stderr)) _exit(5);
    try {
      M m;
      m.insert_boundary(Boundary{});
      m.insert_boundary(Boundary{});
      m.insert_boundary(Boundary{{0, 1}, {1, 1}});
      _exit(2);  // nothing noticed
    } catch (const std::logic_error&) {
      _exit(0);  // the promised exception
    } catch (...) {
      _exit(3);
    }
  }
  int status = 0;
  waitpid(pid, &status, 0);
  std::cout << "(b) insert_boundary without characteristic (debug build): ";
  if (WIFEXITED(status) && WEXITSTATUS(status) == 0) {
    std::cout << "std::logic_error, as written in the GUDHI_CHECK\n";
  } else {
    if (WIFSIGNALED(status))
      std::cout << "process killed by signal " << WTERMSIG(status) << " (8 = SIGFPE, modulo by the characteristic 0)";
    else
      std::cout << "child exit code " << WEXITSTATUS(status) << " (1 = sanitizer abort, 2 = no exception at all)";
    std::cout << "; expected std::logic_error\n";
#ifndef NDEBUG
    ++bad;
#endif
  }
  std::cout << (bad ? "FAIL" : "PASS") << std::endl;
  return bad ? 1 : 0;
}

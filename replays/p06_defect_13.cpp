// Defect 13 - Chain matrix with vine updates and representative cycles: after a transposition
// get_representative_cycle(bar) reads representativeCycles_[-1] (crash) or returns the cycle of another bar.
//
//   chain_rep_cycles.h:143-160 (update_representative_cycles) fills birthToCycle_ indexed by the IDENTIFIER of the
//   pivot ("birthToCycle_[i] = ..." with i an ID_index, and the test "i < col.get_paired_chain_index()" compares an
//   identifier with a MatIdx), while get_representative_cycle (line 175) reads birthToCycle_[bar.birth], a POSITION.
// The source itself says: "for birthToCycle_, assumes that PosIdx == IDIdx, ie pivot == birth index... which is not true
// with vineyards - TODO". Nothing in the user documentation restricts the combination has_vine_update +
// can_retrieve_representative_cycles for chain matrices (the test suite instantiates it: opt_chain_vine_z2_rep).
//
// Build: g++ -std=gnu++17 -O1 -g -fsanitize=address,undefined -I<gudhi includes> defect_13.cpp -o defect_13
// Observed: the last bar ([0] 3 - inf) makes the library read representativeCycles_[4294967295]: SEGV under ASan.
#include <gudhi/Matrix.h>
#include <gudhi/persistence_matrix_options.h>

#include <iostream>
using namespace Gudhi::persistence_matrix;

struct Opt : Default_options<Column_types::INTRUSIVE_SET, true> {
  static const bool is_of_boundary_type = false;  // chain matrix
  static const bool has_column_pairings = true;
  static const bool has_vine_update = true;
  static const bool can_retrieve_representative_cycles = true;
};
using B = std::vector<unsigned>;

int main() {
  Matrix<Opt> m;
  m.insert_boundary(B{}, 0);      // id 0 vertex a
  m.insert_boundary(B{}, 0);      // id 1 vertex b
  m.insert_boundary(B{}, 0);      // id 2 vertex c
  m.insert_boundary(B{0, 1}, 1);  // id 3 edge ab
  m.vine_swap(m.get_column_with_pivot(2), m.get_column_with_pivot(3));  // filtration a b ab c
  m.update_representative_cycles();
  bool ok = true;
  // expected: [0] 0-inf {0} ; [0] 1-2 {0 1} or {1} ; [0] 3-inf: a 0-cycle containing the vertex c (id 2)
  for (auto& b : m.get_current_barcode()) {
    std::cout << "bar " << b << " cycle {" << std::flush;
    bool hasBirthCell = false;
    unsigned birthCell = b.birth == 0 ? 0 : b.birth == 1 ? 1 : b.birth == 3 ? 2 : 3;  // id of the cell at position birth
    for (auto c : m.get_representative_cycle(b)) {
      std::cout << c << " ";
      if (c == birthCell) hasBirthCell = true;
    }
    std::cout << "}" << (hasBirthCell ? "" : "  <-- does not contain the cell which gave birth to the bar") << std::endl;
    if (!hasBirthCell) ok = false;
  }
  std::cout << (ok ? "PASS" : "FAIL") << std::endl;
  return ok ? 0 : 1;
}

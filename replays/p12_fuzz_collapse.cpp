// fuzz_collapse.cpp - randomized differential test of Gudhi::collapse::flag_complex_collapse_edges (property C12).
//
// Reference (independent of GUDHI): brute-force enumeration of all cliques of the graph (the whole flag complex, every
// dimension up to the clique number), filtration = max edge weight, vertices below everything, Z/2 boundary matrix
// column reduction, persistence intervals as multiset of (dim, birth, death) with zero-length intervals dropped.
// Checked after every call:
//   (a) every output edge is an input edge (same orientation), no output edge twice, output value >= input value;
//   (b) the persistence diagram of the flag filtration of the output on the input vertex set == that of the input,
//       in every dimension;
//   (c) (idempotence of legality) the output can be collapsed again and still has the same diagram.
//
// Build (4 configurations x sanitizers / NDEBUG):
//   g++ -std=gnu++17 -O1 -g -fsanitize=address,undefined [-DGUDHI_COLLAPSE_USE_DENSE_ARRAY] [-DGUDHI_USE_TBB]
//       [-DNDEBUG] -I/tmp/seed/P12/src/Collapse/include -I/tmp/seed/P12/src/common/include fuzz_collapse.cpp -ltbb
// Run: ./fuzz_collapse [seed] [ncases]
//
// Also: argv[3] = 1/2/3 adds the extreme values of the filtration type (+-inf, max(), lowest()) to the weights.
//
// Quantifier covered: vertex types int, unsigned char, signed char, unsigned short, short, size_t, unsigned, long;
// filtration types double, float, long double, int, long, short, unsigned, unsigned char; graphs with 2..10 (13)
// vertices: complete, Erdos-Renyi of every density, complete minus a matching (cross-polytopes), cycles with chords,
// plane / circle Rips graphs (real and quantized distances), bipartite + extras; weights: 1..6 distinct levels (ties),
// all distinct, negative / zero / -0.0 / denormal / max()-1 / lowest()+1; labels: 0..n-1, permuted, non contiguous up
// to the maximum of the vertex type (255 for unsigned char); edges given in random order and random orientation;
// containers vector, const vector, list, deque, boost transformed range (prvalue tuples), and the two-argument
// overload with an rvalue vector (the call of the python binding).
//
// RESULT (no defect found in these runs, every diagram in every dimension equal, second collapse also equal):
//   -fsanitize=address,undefined -O1, SPARSE / DENSE / SPARSE+TBB / DENSE+TBB: seed 1 x 300 and seed 11 x 600 cases per
//       campaign (13 campaigns) : 0 failure, no sanitizer report;
//   -O2 -DNDEBUG, the same 4 configurations: seed 100 x 4000 cases per campaign (49000 graphs per configuration):
//       0 failure; the hash of all outputs is identical in the 4 configurations, and identical between the
//       sanitized non-NDEBUG build and the NDEBUG build (seed 100 x 300);
//   with sentinel weights (argv[3]=1): SPARSE and SPARSE+TBB pass (seeds 7, 9 x 200); DENSE fails as soon as a weight is
//       +inf / max() -> defect_1.cpp; DENSE with only the low sentinel (argv[3]=2) passes (seeds 7, 8 x 200).

#include <gudhi/Flag_complex_edge_collapser.h>

#include <boost/range/adaptor/transformed.hpp>

#include <algorithm>
#include <cstdint>
#include <cstdio>
#include <cstdlib>
#include <iostream>
#include <functional>
#include <list>
#include <deque>
#include <map>
#include <random>
#include <set>
#include <sstream>
#include <tuple>
#include <vector>
#include <cmath>
#include <limits>

// ------------------------------------------------------------------ reference persistence
// Filtration key: (level, value); level 0 = vertex (below everything), level 1 = real value
template <class F>
struct Key {
  int level;
  F value;
  bool operator<(Key const& o) const { return level != o.level ? level < o.level : value < o.value; }
  bool operator==(Key const& o) const { return level == o.level && (level == 0 || value == o.value); }
  bool operator!=(Key const& o) const { return !(*this == o); }
};

template <class F>
struct Interval {
  int dim;
  Key<F> birth;
  bool essential;
  Key<F> death;
  bool operator<(Interval const& o) const {
    if (dim != o.dim) return dim < o.dim;
    if (birth != o.birth) return birth < o.birth;
    if (essential != o.essential) return essential < o.essential;
    if (essential) return false;
    if (death != o.death) return death < o.death;
    return false;
  }
  bool operator==(Interval const& o) const { return !(*this < o) && !(o < *this); }
};

template <class F>
std::string to_string(Interval<F> const& i) {
  std::ostringstream s;
  s << "dim " << i.dim << " [";
  if (i.birth.level == 0) s << "-oo"; else s << +i.birth.value;
  s << ", ";
  if (i.essential) s << "+oo(essential)"; else s << +i.death.value;
  s << ")";
  return s.str();
}

// all vertices given explicitly (so that the output is evaluated "on the same vertices")
template <class V, class F>
std::vector<Interval<F>> reference_diagram(std::vector<V> const& verts, std::vector<std::tuple<V, V, F>> const& edges,
                                           std::size_t* nsimplices = nullptr) {
  int n = (int)verts.size();
  std::map<V, int> idx;
  for (int i = 0; i < n; ++i) idx[verts[i]] = i;
  std::vector<std::vector<char>> adj(n, std::vector<char>(n, 0));
  std::vector<std::vector<F>> w(n, std::vector<F>(n, F()));
  for (auto const& e : edges) {
    int a = idx.at(std::get<0>(e)), b = idx.at(std::get<1>(e));
    if (a == b) { std::cerr << "reference: self loop\n"; std::abort(); }
    if (adj[a][b]) { std::cerr << "reference: duplicate edge\n"; std::abort(); }
    adj[a][b] = adj[b][a] = 1;
    w[a][b] = w[b][a] = std::get<2>(e);
  }
  struct Simplex { std::vector<int> v; Key<F> k; };
  std::vector<Simplex> S;
  // enumerate cliques recursively
  std::vector<int> cur;
  std::function<void(int, Key<F>)> rec = [&](int start, Key<F> k) {
    for (int x = start; x < n; ++x) {
      bool ok = true;
      Key<F> k2 = k;
      for (int y : cur) {
        if (!adj[x][y]) { ok = false; break; }
        Key<F> ke{1, w[x][y]};
        if (k2 < ke) k2 = ke;
      }
      if (!ok) continue;
      cur.push_back(x);
      S.push_back({cur, k2});
      rec(x + 1, k2);
      cur.pop_back();
    }
  };
  rec(0, Key<F>{0, F()});
  if (nsimplices) *nsimplices = S.size();
  std::stable_sort(S.begin(), S.end(), [](Simplex const& a, Simplex const& b) {
    if (a.k != b.k) return a.k < b.k;
    return a.v.size() < b.v.size();
  });
  std::size_t m = S.size();
  std::map<std::vector<int>, int> pos;
  for (std::size_t i = 0; i < m; ++i) pos[S[i].v] = (int)i;
  std::size_t W = (m + 63) / 64;
  std::vector<std::vector<std::uint64_t>> col(m, std::vector<std::uint64_t>(W, 0));
  auto low = [&](std::vector<std::uint64_t> const& c) -> int {
    for (int q = (int)W - 1; q >= 0; --q)
      if (c[q]) return q * 64 + 63 - __builtin_clzll(c[q]);
    return -1;
  };
  std::vector<int> owner(m, -1);  // owner[low] = column
  std::vector<char> paired(m, 0);
  std::vector<Interval<F>> res;
  for (std::size_t j = 0; j < m; ++j) {
    auto const& s = S[j].v;
    if (s.size() > 1) {
      for (std::size_t d = 0; d < s.size(); ++d) {
        std::vector<int> f;
        for (std::size_t t = 0; t < s.size(); ++t) if (t != d) f.push_back(s[t]);
        int p = pos.at(f);
        col[j][p / 64] ^= (std::uint64_t(1) << (p % 64));
      }
    }
    int l;
    while ((l = low(col[j])) >= 0 && owner[l] >= 0) {
      auto const& o = col[owner[l]];
      for (std::size_t q = 0; q < W; ++q) col[j][q] ^= o[q];
    }
    if (l >= 0) {
      owner[l] = (int)j;
      paired[l] = 1;
      paired[j] = 1;
      if (S[l].k != S[j].k) res.push_back({(int)S[l].v.size() - 1, S[l].k, false, S[j].k});
    }
  }
  for (std::size_t j = 0; j < m; ++j)
    if (!paired[j]) res.push_back({(int)S[j].v.size() - 1, S[j].k, true, S[j].k});
  std::sort(res.begin(), res.end());
  return res;
}

// ------------------------------------------------------------------ checking
static long g_fail = 0;
static std::uint64_t g_hash = 1469598103934665603ull;  // hash of every output, to compare DENSE and SPARSE builds (must be equal)
static void hash_mix(long double x) { std::ostringstream o; o.precision(25); o << x; for (char ch : o.str()) { g_hash ^= (unsigned char)ch; g_hash *= 1099511628211ull; } }

template <class V, class F>
void dump(std::vector<std::tuple<V, V, F>> const& e, const char* name) {
  std::cerr.precision(17);
  std::cerr << name << " = {";
  for (auto const& t : e) std::cerr << "{" << +std::get<0>(t) << "," << +std::get<1>(t) << "," << +std::get<2>(t) << "}, ";
  std::cerr << "}\n";
}

template <class V, class F, class Range>
bool check(Range const& in_range, const char* what, int variant = 0) {
  using FE = std::tuple<V, V, F>;
  std::vector<FE> in(in_range.begin(), in_range.end());
  std::vector<FE> out;
  if (variant == 1) {
    // the call made by the python binding: rvalue vector + identity "delay" (moves the input instead of copying it)
    std::vector<FE> tmp(in);
    out = Gudhi::collapse::flag_complex_collapse_edges(std::move(tmp), [](auto const& d) { return d; });
  } else if (variant == 2) {
    // the call made by the example / unit test: a transformed range that yields tuples by value
    out = Gudhi::collapse::flag_complex_collapse_edges(
        boost::adaptors::transform(in, [](FE const& e) { return std::make_tuple(std::get<0>(e), std::get<1>(e), std::get<2>(e)); }));
  } else {
    out = Gudhi::collapse::flag_complex_collapse_edges(in_range);
  }
  for (auto const& e : out) { hash_mix(std::get<0>(e)); hash_mix(std::get<1>(e)); hash_mix(std::get<2>(e)); }
  bool ok = true;
  std::map<std::pair<V, V>, F> inmap;
  std::set<V> vs;
  for (auto const& e : in) { inmap[{std::get<0>(e), std::get<1>(e)}] = std::get<2>(e); vs.insert(std::get<0>(e)); vs.insert(std::get<1>(e)); }
  std::set<std::pair<V, V>> seen;
  for (auto const& e : out) {
    auto k = std::make_pair(std::get<0>(e), std::get<1>(e));
    auto it = inmap.find(k);
    if (it == inmap.end()) { std::cerr << "FAIL(" << what << "): output edge not in input\n"; ok = false; }
    else if (std::get<2>(e) < it->second) { std::cerr << "FAIL(" << what << "): output value smaller than input value\n"; ok = false; }
    if (!seen.insert(k).second) { std::cerr << "FAIL(" << what << "): output edge twice\n"; ok = false; }
  }
  if (out.size() > in.size()) { std::cerr << "FAIL(" << what << "): more edges\n"; ok = false; }
  std::vector<V> verts(vs.begin(), vs.end());
  if (ok) {
    auto d_in = reference_diagram<V, F>(verts, in);
    auto d_out = reference_diagram<V, F>(verts, out);
    if (!(d_in == d_out)) {
      std::cerr << "FAIL(" << what << "): persistence diagrams differ\n";
      std::cerr << " input diagram:\n"; for (auto const& i : d_in) std::cerr << "   " << to_string(i) << "\n";
      std::cerr << " output diagram:\n"; for (auto const& i : d_out) std::cerr << "   " << to_string(i) << "\n";
      ok = false;
    } else {
      // collapse again
      auto out2 = Gudhi::collapse::flag_complex_collapse_edges(out);
      std::map<std::pair<V, V>, F> outmap;
      for (auto const& e : out) outmap[{std::get<0>(e), std::get<1>(e)}] = std::get<2>(e);
      for (auto const& e : out2) {
        auto it = outmap.find({std::get<0>(e), std::get<1>(e)});
        if (it == outmap.end() || std::get<2>(e) < it->second) { std::cerr << "FAIL(" << what << "): 2nd pass edge\n"; ok = false; }
      }
      auto d_out2 = reference_diagram<V, F>(verts, out2);
      if (!(d_in == d_out2)) { std::cerr << "FAIL(" << what << "): persistence diagrams differ after second collapse\n"; ok = false; dump(out, "first_output"); dump(out2,"second_output"); }
    }
  }
  if (!ok) {
    ++g_fail;
    dump(in, "input");
    dump(out, "output");
  }
  return ok;
}

// ------------------------------------------------------------------ generators
static int g_sentinels = 0;  // argv[3]: 1 = also use the extreme values of the type (+-inf / max() / lowest()) as weights; 2 = only the low one; 3 = only the high one
template <class F> F make_weight(std::mt19937_64& rng, int mode, int nlevels) {
  if (g_sentinels && rng() % 4 == 0) {
    bool hi = rng() % 2; if (g_sentinels == 2) hi = false; if (g_sentinels == 3) hi = true;
    if constexpr (std::numeric_limits<F>::has_infinity)
      return hi ? std::numeric_limits<F>::infinity() : -std::numeric_limits<F>::infinity();
    else
      return hi ? std::numeric_limits<F>::max() : std::numeric_limits<F>::lowest();
  }
  // mode 0: few distinct levels (ties); 1: many distinct; 2: includes extreme values
  if constexpr (std::is_floating_point<F>::value) {
    switch (mode) {
      case 0: return F(int(rng() % nlevels)) ;
      case 1: return F(std::uniform_real_distribution<double>(-10, 10)(rng));
      case 3: return F(int(rng() % nlevels)) - F(nlevels / 2);  // negative, zero (and -0.0)
      default: {
        int r = rng() % 8;
        if (r == 0) return std::numeric_limits<F>::max();
        if (r == 1) return std::numeric_limits<F>::lowest();
        if (r == 2) return std::numeric_limits<F>::denorm_min();
        if (r == 3) return -F(0);
        if (r == 4) return F(0);
        return F(int(rng() % nlevels));
      }
    }
  } else {
    switch (mode) {
      case 0: return F(rng() % nlevels);
      case 1: return F(rng() % std::min<unsigned long long>(1000, (unsigned long long)std::numeric_limits<F>::max()));  // never max() itself, see defect 1
      case 3: if (std::is_signed<F>::value) return F(F(rng() % nlevels) - F(nlevels / 2)); else return F(rng() % nlevels);
      default: {
        int r = rng() % 8;
        if (r == 0) return F(std::numeric_limits<F>::max() - 1);
        if (r == 1) return F(std::numeric_limits<F>::lowest() + 1);
        if (r == 2) return F(std::numeric_limits<F>::max() - 2);
        return F(rng() % nlevels);
      }
    }
  }
}

template <class V, class F>
std::vector<std::tuple<V, V, F>> gen_graph(std::mt19937_64& rng, int maxn, long maxlabel) {
  using FE = std::tuple<V, V, F>;
  int n = 1 + rng() % maxn;
  if (n < 2) n = 2;
  // labels
  std::vector<V> label(n);
  int lmode = rng() % 3;
  if (lmode == 0) { for (int i = 0; i < n; ++i) label[i] = V(i); }
  else if (lmode == 1) { for (int i = 0; i < n; ++i) label[i] = V(i); std::shuffle(label.begin(), label.end(), rng); }
  else {
    std::set<long> s;
    long ml = std::max<long>(maxlabel, n);
    while ((int)s.size() < n) s.insert(rng() % (ml + 1));
    std::vector<long> t(s.begin(), s.end());
    std::shuffle(t.begin(), t.end(), rng);
    for (int i = 0; i < n; ++i) label[i] = V(t[i]);
  }
  int wmode = rng() % 4;
  int nlevels = 1 + rng() % 6;
  int shape = rng() % 8;
  std::vector<std::vector<char>> A(n, std::vector<char>(n, 0));
  std::vector<std::vector<F>> W(n, std::vector<F>(n, F()));
  auto add = [&](int a, int b) { if (a != b) A[a][b] = A[b][a] = 1; };
  double p = std::uniform_real_distribution<double>(0.1, 1.0)(rng);
  switch (shape) {
    case 0:  // complete
      for (int i = 0; i < n; ++i) for (int j = 0; j < i; ++j) add(i, j);
      break;
    case 1: case 2: case 3:  // Erdos-Renyi
      for (int i = 0; i < n; ++i) for (int j = 0; j < i; ++j) if (std::bernoulli_distribution(p)(rng)) add(i, j);
      break;
    case 4: {  // cross-polytope-like: complete minus a random matching-ish set
      for (int i = 0; i < n; ++i) for (int j = 0; j < i; ++j) add(i, j);
      for (int i = 0; i + 1 < n; i += 2) if (rng() % 4) { A[i][i + 1] = A[i + 1][i] = 0; }
      break;
    }
    case 5: {  // cycle + chords
      for (int i = 0; i < n; ++i) add(i, (i + 1) % n);
      int c = rng() % (n + 1);
      for (int k = 0; k < c; ++k) add(rng() % n, rng() % n);
      break;
    }
    case 6: {  // geometric (Rips of random points in the plane), real distances, maybe quantized
      std::vector<std::pair<double, double>> pts(n);
      for (auto& q : pts) q = {std::uniform_real_distribution<double>(0, 1)(rng), std::uniform_real_distribution<double>(0, 1)(rng)};
      if (rng() % 2) { // points on a circle
        for (int i = 0; i < n; ++i) { double a = 6.283185307179586 * i / n; pts[i] = {std::cos(a), std::sin(a)}; }
      }
      double thr = std::uniform_real_distribution<double>(0.3, 2.5)(rng);
      bool quant = rng() % 2;
      for (int i = 0; i < n; ++i) for (int j = 0; j < i; ++j) {
        double d = std::hypot(pts[i].first - pts[j].first, pts[i].second - pts[j].second);
        if (d <= thr) {
          add(i, j);
          double v = quant ? std::floor(d * 4) : d * 100;
          W[i][j] = W[j][i] = F(v);
        }
      }
      wmode = -1;
      break;
    }
    default: {  // bipartite + few extra
      for (int i = 0; i < n; ++i) for (int j = 0; j < i; ++j) if ((i % 2) != (j % 2) && std::bernoulli_distribution(p)(rng)) add(i, j);
      int c = rng() % 3;
      for (int k = 0; k < c; ++k) add(rng() % n, rng() % n);
    }
  }
  std::vector<FE> edges;
  for (int i = 0; i < n; ++i) for (int j = 0; j < i; ++j) if (A[i][j]) {
    F f = (wmode < 0) ? W[i][j] : make_weight<F>(rng, wmode, nlevels);
    if (rng() % 2) edges.emplace_back(label[i], label[j], f); else edges.emplace_back(label[j], label[i], f);
  }
  std::shuffle(edges.begin(), edges.end(), rng);
  return edges;
}

template <class V, class F>
void campaign(const char* name, std::uint64_t seed, int ncases, int maxn, long maxlabel) {
  std::mt19937_64 rng(seed);
  long before = g_fail;
  for (int c = 0; c < ncases; ++c) {
    auto edges = gen_graph<V, F>(rng, maxn, maxlabel);
    std::string what = std::string(name) + " case " + std::to_string(c);
    int cont = c % 6;
    if (edges.empty() || cont == 0) check<V, F>(edges, what.c_str());
    else if (cont == 1) { std::list<std::tuple<V, V, F>> l(edges.begin(), edges.end()); check<V, F>(l, what.c_str()); }
    else if (cont == 2) { std::deque<std::tuple<V, V, F>> l(edges.begin(), edges.end()); check<V, F>(l, what.c_str()); }
    else if (cont == 3) { std::vector<std::tuple<V, V, F>> const l(edges.begin(), edges.end()); check<V, F>(l, what.c_str()); }
    else check<V, F>(edges, what.c_str(), cont - 3);
    if (g_fail - before >= 3) { std::cerr << name << ": stopping after 3 failures\n"; break; }
  }
  std::cout << name << ": " << ncases << " cases, failures " << (g_fail - before) << " outputs-hash " << g_hash << std::endl;
}

int main(int argc, char** argv) {
  std::uint64_t seed = argc > 1 ? std::strtoull(argv[1], 0, 10) : 1;
  int n = argc > 2 ? std::atoi(argv[2]) : 300;
  g_sentinels = argc > 3 ? std::atoi(argv[3]) : 0;
  std::cout << "config:"
#ifdef GUDHI_COLLAPSE_USE_DENSE_ARRAY
            << " DENSE"
#else
            << " SPARSE"
#endif
#ifdef GUDHI_USE_TBB
            << " TBB"
#endif
#ifdef NDEBUG
            << " NDEBUG"
#endif
            << " seed " << seed << (g_sentinels ? " with sentinel weights" : "") << std::endl;
  campaign<int, double>("int/double", seed, n, 10, 40);
  campaign<int, float>("int/float", seed + 1, n, 10, 40);
  campaign<int, int>("int/int", seed + 2, n, 10, 40);
  campaign<unsigned char, double>("uchar/double", seed + 3, n, 10, 255);
  campaign<signed char, int>("schar/int", seed + 4, n, 10, 127);
  campaign<unsigned short, float>("ushort/float", seed + 5, n, 10, 300);
  campaign<short, long>("short/long", seed + 6, n, 10, 300);
  campaign<std::size_t, double>("size_t/double", seed + 7, n, 10, 60);
  campaign<unsigned, unsigned>("unsigned/unsigned", seed + 8, n, 10, 60);
  campaign<long, long double>("long/longdouble", seed + 9, n, 10, 60);
  campaign<int, short>("int/short", seed + 10, n, 10, 40);
  campaign<unsigned char, unsigned char>("uchar/uchar", seed + 11, n, 10, 255);
  campaign<int, double>("int/double n<=13", seed + 12, n / 4, 13, 20);
  std::cout << (g_fail ? "FAIL" : "PASS") << " total failures " << g_fail << std::endl;
  return g_fail ? 1 : 0;
}

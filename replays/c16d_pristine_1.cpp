// Pristine observation 1: the eager and the lazy toplex map do not keep the same vertex when the same edge of the same
// complex is contracted: the surviving label is chosen from the number of *stored* simplices per vertex, and the lazy
// map also stores non-maximal simplices. After the contraction the two variants disagree on membership.
#include <gudhi/Lazy_toplex_map.h>
#include <gudhi/Toplex_map.h>
#include <cstdio>
#include <vector>
int main() {
  using Vertex = Gudhi::Toplex_map::Vertex;
  Gudhi::Toplex_map eager;
  Gudhi::Lazy_toplex_map lazy;
  std::vector<Vertex> v0 = {0}, v5 = {5}, e05 = {0, 5};
  eager.insert_simplex(v0);
  lazy.insert_simplex(v0);
  eager.insert_simplex(e05);
  lazy.insert_simplex(e05);
  Vertex ke = eager.contraction(0, 5), kl = lazy.contraction(0, 5);
  std::printf("contraction(0,5): eager keeps %zu, lazy keeps %zu\n", ke, kl);
  bool e0 = eager.membership(v0), e5 = eager.membership(v5), l0 = lazy.membership(v0), l5 = lazy.membership(v5);
  std::printf("membership {0}: eager %d lazy %d;  membership {5}: eager %d lazy %d\n", int(e0), int(l0), int(e5), int(l5));
  bool ok = ke == kl && e0 == l0 && e5 == l5;
  std::printf(ok ? "PASS\n" : "FAIL\n");
  return ok ? 0 : 1;
}

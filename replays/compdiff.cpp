// differential replay: column-compressed base matrix against a dense model with class sharing
#include <gudhi/Matrix.h>
#include <gudhi/persistence_matrix_options.h>
#include <iostream>
#include <random>
#include <map>
#include <set>
using namespace Gudhi::persistence_matrix;
template<Column_types C, bool Z2, bool RA> struct Opt : Default_options<C, Z2> {
  static const bool has_column_compression = true;
  static const bool has_row_access = RA;
};
static const unsigned P = 5;
using Dense = std::map<unsigned,unsigned>;   // row -> value (non-zero)
template<class O> long run(const char* name, unsigned seed){
  using M = Matrix<O>;
  constexpr bool z2 = O::is_z2;
  unsigned p = z2 ? 2 : P;
  std::mt19937 g(seed);
  long checks=0;
  for(int rep=0; rep<300; ++rep){
    M m = z2 ? M() : M(0, P);
    std::vector<Dense> cols; std::vector<int> cls;   // class id per column
    auto merge=[&](){ // merge classes with equal non-zero content
      for(size_t i=0;i<cols.size();++i) for(size_t j=0;j<i;++j) if(!cols[i].empty() && cols[i]==cols[j] && cls[i]!=cls[j]){ int a=cls[i],b=cls[j]; for(auto& c:cls) if(c==a) c=b; }
    };
    int ncols = 2 + g()%4;
    for(int i=0;i<ncols;++i){
      Dense d; for(unsigned r=0;r<4;++r) if(g()%2) d[r]= z2?1:1+g()%(p-1);
      cols.push_back(d); cls.push_back((int)cols.size()-1+1000*0);
      if constexpr (z2){ std::vector<unsigned> b; for(auto&kv:d) b.push_back(kv.first); m.insert_column(b);} 
      else { std::vector<std::pair<unsigned,unsigned>> b; for(auto&kv:d) b.push_back(kv); m.insert_column(b);} 
      cls.back()= (int)cols.size()-1; merge();
    }
    for(int op=0; op<12; ++op){
      unsigned s=g()%ncols, t=g()%ncols; unsigned c= z2? g()%2 : g()%p; int kind=g()%3;
      Dense src=cols[s];
      int tc=cls[t];
      for(size_t j=0;j<cols.size();++j) if(cls[j]==tc){
        Dense& d=cols[j]; Dense r;
        std::set<unsigned> rows; for(auto&kv:d) rows.insert(kv.first); for(auto&kv:src) rows.insert(kv.first);
        for(unsigned row:rows){ unsigned a=d.count(row)?d[row]:0, b=src.count(row)?src[row]:0; unsigned v;
          if(kind==0) v=(a+b)%p; else if(kind==1) v=(c*a+b)%p; else v=(a+c*b)%p; if(v) r[row]=v; }
        d=r;
      }
      if(kind==0) m.add_to(s,t); else if(kind==1) m.multiply_target_and_add_to(s,c,t); else m.multiply_source_and_add_to(c,s,t);
      merge();
      for(int j=0;j<ncols;++j){
        Dense got; for(auto& e: m.get_column(j)){ unsigned v=1; if constexpr(!z2) v=e.get_element(); got[e.get_row_index()]=v; }
        ++checks;
        if(got!=cols[j] || m.is_zero_column(j)!=cols[j].empty()){ std::cout<<name<<": MISMATCH seed "<<seed<<" rep "<<rep<<" op "<<op<<" kind "<<kind<<" s "<<s<<" t "<<t<<" c "<<c<<" col "<<j<<"\n"; return -1; }
      }
    }
  }
  std::cout<<name<<": "<<checks<<" column comparisons ok\n"; return checks;
}
int main(){
  long bad=0;
#define R(C,Z,RA) if(run<Opt<Column_types::C,Z,RA>>(#C " z2=" #Z " ra=" #RA, 7)<0) bad++;
  R(INTRUSIVE_SET,true,false) R(INTRUSIVE_SET,false,false) R(INTRUSIVE_LIST,true,false) R(INTRUSIVE_LIST,false,false)
  R(LIST,true,false) R(LIST,false,false) R(SET,true,false) R(SET,false,false) R(UNORDERED_SET,true,false) R(UNORDERED_SET,false,false)
  R(VECTOR,true,false) R(VECTOR,false,false) R(NAIVE_VECTOR,true,false) R(NAIVE_VECTOR,false,false) R(SMALL_VECTOR,true,false) R(SMALL_VECTOR,false,false)
  R(INTRUSIVE_SET,true,true) R(INTRUSIVE_SET,false,true) R(LIST,false,true) R(VECTOR,true,true)
  std::cout<<(bad?"FAIL":"PASS")<<"\n"; return bad!=0;
}

// Pristine finding 2 (not seeded, borderline scope): with an integer Filtration_value and the dense neighbour
// table, std::numeric_limits<int>::infinity() is 0, so "absent" entries of the table read as "present at time 0".
// Every candidate then looks adjacent to everything and edges are removed wrongly.  The default (sparse) table gives
// the right answer on the same input.
// Build: g++ -std=gnu++17 -O1 -I<worktree>/src/Collapse/include -I<worktree>/src/common/include pristine_2.cpp -o pristine_2
#define GUDHI_COLLAPSE_USE_DENSE_ARRAY
#include <gudhi/Flag_complex_edge_collapser.h>
#include <iostream>
#include <tuple>
#include <vector>

int main() {
  // 4-cycle at time 1, diagonals at 5 and 7: H1 class [1,5) -> the diagonal 0-2 @ 5 must be kept.
  std::vector<std::tuple<int, int, int>> edges{{0, 1, 1}, {1, 2, 1}, {2, 3, 1}, {3, 0, 1}, {0, 2, 5}, {1, 3, 7}};
  auto out = Gudhi::collapse::flag_complex_collapse_edges(edges);
  bool has02 = false;
  std::cout << out.size() << " edges kept:";
  for (auto& e : out) {
    std::cout << " " << std::get<0>(e) << "-" << std::get<1>(e) << "@" << std::get<2>(e);
    if (std::get<0>(e) == 0 && std::get<1>(e) == 2 && std::get<2>(e) == 5) has02 = true;
  }
  std::cout << "\n";
  bool ok = has02 && out.size() == 5;
  std::cout << (ok ? "PASS" : "FAIL") << std::endl;
  return ok ? 0 : 1;
}

#include <gudhi/Matrix.h>
#include <gudhi/persistence_matrix_options.h>
#include <iostream>
#include <set>
#include <tuple>
using namespace Gudhi::persistence_matrix;
template<bool VINE> struct Opt : Default_options<Column_types::INTRUSIVE_SET, true> {
  static const bool is_of_boundary_type = false;
  static const Column_indexation_types column_indexation_type = Column_indexation_types::POSITION;
  static const bool has_column_pairings = true;
  static const bool has_removable_columns = true;
  static const bool has_vine_update = VINE;
  static const bool has_map_column_container = VINE;
};
template<bool VINE> int run(){
  using M = Matrix<Opt<VINE>>;
  M m;
  m.insert_boundary({}); m.insert_boundary({}); m.insert_boundary({});
  m.insert_boundary({0,1});
  m.remove_last();
  m.insert_boundary({1,2});
  M fresh;
  fresh.insert_boundary({}); fresh.insert_boundary({}); fresh.insert_boundary({});
  fresh.insert_boundary({1,2});
  int bad=0;
  std::cout<<"vine="<<VINE<<"\n";
  { std::multiset<std::tuple<int,unsigned,unsigned>> a,b; for(auto&x:m.get_current_barcode()) a.emplace(x.dim,x.birth,x.death); for(auto&x:fresh.get_current_barcode()) b.emplace(x.dim,x.birth,x.death); std::cout<<"  barcode "<<(a==b?"equal":"DIFFERS")<<"\n"; if(a!=b) bad++; }
  if(false)
  for(unsigned p=0;p<4;++p){
    std::vector<unsigned> a,b; for(auto&e:m.get_column(p)) a.push_back(e.get_row_index()); for(auto&e:fresh.get_column(p)) b.push_back(e.get_row_index());
    std::cout<<"  position "<<p<<": "; for(auto x:a) std::cout<<x<<" "; std::cout<<"| rebuilt: "; for(auto x:b) std::cout<<x<<" "; std::cout<<(a==b?"":"   <-- differs")<<"\n"; if(a!=b) bad++;
  }
  return bad;
}
int main(){ int bad=run<false>()+run<true>(); std::cout<<(bad?"FAIL":"PASS")<<"\n"; return bad!=0; }

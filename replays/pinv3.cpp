#include <gudhi/Fields/Multi_field_small_operators.h>
#include <iostream>
#include <vector>
using namespace Gudhi::persistence_fields;
int main(){
  long bad=0, n=0;
  int ranges[][2]={{2,3},{2,5},{2,7},{3,7},{5,13},{2,11}};
  for(auto&r:ranges){
    Multi_field_operators_with_small_characteristics op(r[0],r[1]);
    std::vector<unsigned> primes; for(unsigned p=r[0];p<=(unsigned)r[1];++p){bool pr=p>1; for(unsigned d=2;d*d<=p;++d) if(p%d==0) pr=false; if(pr) primes.push_back(p);}
    unsigned Q=1; for(auto p:primes) Q*=p;
    for(unsigned mask=1; mask<(1u<<primes.size()); ++mask){
      unsigned QS=1; for(size_t i=0;i<primes.size();++i) if(mask>>i&1) QS*=primes[i];
      for(unsigned x=0;x<Q;++x){
        auto res=op.get_partial_inverse(x,QS); ++n;
        unsigned T=1; for(size_t i=0;i<primes.size();++i) if((mask>>i&1) && x%primes[i]!=0) T*=primes[i];
        bool ok = res.second==T || (T==1 && res.second==1);
        if(T!=1){ for(auto p:primes){ unsigned v=res.first%p; if(T%p==0){ if((v*(x%p))%p!=1) ok=false;} else if(v!=0) ok=false; } }
        else if(res.first!=0) ok=false;
        if(!ok){ if(bad<5) std::cout<<"range ["<<r[0]<<","<<r[1]<<"] x="<<x<<" QS="<<QS<<" -> ("<<res.first<<","<<res.second<<") expected T="<<T<<"\n"; ++bad; }
      }
    }
  }
  std::cout<<n<<" checks, "<<bad<<" failures\n"; return bad!=0;
}

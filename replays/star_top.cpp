// Pristine defect: star_simplex_range() of a top-dimensional simplex is empty when
// Options::link_nodes_by_label is false, whereas it contains the simplex itself when it is true
// (and the star of any non top-dimensional simplex contains the simplex itself under every option set).
#include <gudhi/Simplex_tree.h>
#include <iostream>

using namespace Gudhi;

template <class ST>
std::size_t star_size_of_top_simplex() {
  ST st;
  st.insert_simplex_and_subfaces({0, 1, 2}, 1.);
  st.insert_simplex_and_subfaces({2, 3}, 1.);
  std::size_t n = 0;
  for (auto sh : st.star_simplex_range(st.find({0, 1, 2}))) { (void)sh; ++n; }
  return n;
}

template <class ST>
std::size_t star_size_of_edge() {
  ST st;
  st.insert_simplex_and_subfaces({0, 1, 2}, 1.);
  st.insert_simplex_and_subfaces({2, 3}, 1.);
  std::size_t n = 0;
  for (auto sh : st.star_simplex_range(st.find({0, 1}))) { (void)sh; ++n; }
  return n;
}

int main() {
  std::size_t d = star_size_of_top_simplex<Simplex_tree<>>();
  std::size_t p = star_size_of_top_simplex<Simplex_tree<Simplex_tree_options_fast_persistence>>();
  std::size_t f = star_size_of_top_simplex<Simplex_tree<Simplex_tree_options_full_featured>>();
  std::cout << "star({0,1,2}) size: default=" << d << " fast_persistence=" << p << " full_featured=" << f
            << " (expected 1 everywhere: the simplex itself)\n";
  std::cout << "star({0,1}) size:   default=" << star_size_of_edge<Simplex_tree<>>()
            << " full_featured=" << star_size_of_edge<Simplex_tree<Simplex_tree_options_full_featured>>()
            << " (expected 2: {0,1} and {0,1,2})\n";
  bool ok = (d == 1 && p == 1 && f == 1);
  std::cout << (ok ? "PASS" : "FAIL") << std::endl;
  return ok ? 0 : 1;
}

// Differential test of the Z_p classes of Persistence_matrix against a 128-bit reference:
//   Zp_field_element<p, T> (compile-time p), Shared_Zp_field_element<T>, Zp_field_operators<T>
// See the COVERAGE comment at the end of the file.
#include <iostream>
#include <cstdint>
#include <random>
#include <vector>
#include <limits>
#include <climits>
#include <type_traits>
#include <gudhi/Fields/Zp_field.h>
#include <gudhi/Fields/Zp_field_shared.h>
#include <gudhi/Fields/Zp_field_operators.h>

using namespace Gudhi::persistence_fields;
typedef __int128 i128;
static long long nfail = 0, nchecks = 0;
static std::mt19937_64 rng(12345);

static unsigned long long refmod(i128 v, unsigned long long p) { i128 r = v % (i128)p; if (r < 0) r += p; return (unsigned long long)r; }
#define CHECK(got, exp, ...) do { ++nchecks; unsigned long long g_ = (unsigned long long)(got), e_ = (unsigned long long)(exp); \
  if (g_ != e_) { if (++nfail < 40) { std::cout << "FAIL " << __LINE__ << ": got " << g_ << " expected " << e_ << " | "; __VA_ARGS__; std::cout << std::endl; } } } while (0)

static bool is_prime(unsigned long long n) { if (n < 2) return false; for (unsigned long long i = 2; i * i <= n; ++i) if (n % i == 0) return false; return true; }

template <class T> const char* tname() {
  if (std::is_same_v<T, unsigned char>) return "uchar"; if (std::is_same_v<T, unsigned short>) return "ushort";
  if (std::is_same_v<T, unsigned int>) return "uint"; if (std::is_same_v<T, unsigned long>) return "ulong";
  if (std::is_same_v<T, unsigned long long>) return "ulonglong"; return "?"; }

// operand sets -------------------------------------------------------------------------------------------------
static std::vector<unsigned long long> reduced_operands(unsigned long long p, bool exhaustive, int nrand) {
  std::vector<unsigned long long> v;
  if (exhaustive) { for (unsigned long long i = 0; i < p; ++i) v.push_back(i); return v; }
  for (unsigned long long x : {0ull, 1ull, 2ull, 3ull, p - 1, p - 2, p - 3, p / 2, p / 2 + 1, p / 2 - 1, p / 3, 255ull, 256ull, 257ull, 32767ull, 32768ull})
    if (x < p) v.push_back(x);
  for (int i = 0; i < nrand; ++i) v.push_back(rng() % p);
  return v;
}
template <class I> static std::vector<I> machine_ints(unsigned long long p) {
  std::vector<I> v;
  using L = std::numeric_limits<I>;
  long long cands[] = {0, 1, 2, -1, -2, (long long)p, (long long)p - 1, (long long)p + 1, -(long long)p, -(long long)p - 1, -(long long)p + 1,
                       2 * (long long)p, 127, 128, -128, -129, 255, 256, 32767, 32768, -32768, -32769, 65535, 65536, 2147483647LL, -2147483648LL,
                       2147483648LL, 4294967295LL, 4294967296LL, -4294967296LL};
  for (long long c : cands) { if (std::is_signed_v<I>) { if (c >= (long long)L::min() && c <= (long long)L::max()) v.push_back((I)c); }
                              else if (c >= 0 && (unsigned long long)c <= (unsigned long long)L::max()) v.push_back((I)c); }
  v.push_back(L::max()); v.push_back(L::min()); v.push_back(L::max() - 1); v.push_back(L::min() + 1);
  for (int i = 0; i < 6; ++i) v.push_back((I)rng());
  return v;
}
template <class I> static i128 as128(I v) { return (i128)v; }

// element-class interface (Zp_field_element / Shared_Zp_field_element) -------------------------------------------
template <class F, class I> void elem_int_checks(unsigned long long p, const std::vector<unsigned long long>& ops) {
  for (I v : machine_ints<I>(p)) {
    i128 V = as128(v);
    F c(v); CHECK(c.get_value(), refmod(V, p), std::cout << "ctor p=" << p << " v=" << (long long)v);
    F as; as = v; CHECK(as.get_value(), refmod(V, p), std::cout << "assign p=" << p << " v=" << (long long)v);
    for (int k = 0; k < 6; ++k) {
      unsigned long long a = ops[(k * 7919u + (unsigned)v) % ops.size()];
      F f((unsigned long long)a);
      { F g(f); g += v; CHECK(g.get_value(), refmod(a + V, p), std::cout << "+=int p=" << p << " a=" << a << " v=" << (long long)v); }
      { F g(f); g -= v; CHECK(g.get_value(), refmod(a - V, p), std::cout << "-=int p=" << p << " a=" << a << " v=" << (long long)v); }
      { F g(f); g *= v; CHECK(g.get_value(), refmod(refmod(V, p) * (i128)a, p), std::cout << "*=int p=" << p << " a=" << a << " v=" << (long long)v); }
      CHECK((f + v).get_value(), refmod(a + V, p), std::cout << "f+int");
      CHECK((f - v).get_value(), refmod(a - V, p), std::cout << "f-int");
      CHECK((f * v).get_value(), refmod(refmod(V, p) * (i128)a, p), std::cout << "f*int");
      // int op f returns Integer_type: the residue, converted to I (only comparable when the residue fits I)
      if (p - 1 <= (unsigned long long)std::numeric_limits<I>::max()) {
        CHECK((unsigned long long)(v + f), refmod(a + V, p), std::cout << "int+f p=" << p << " a=" << a << " v=" << (long long)v);
        CHECK((unsigned long long)(v - f), refmod(V - a, p), std::cout << "int-f p=" << p << " a=" << a << " v=" << (long long)v);
        CHECK((unsigned long long)(v * f), refmod(refmod(V, p) * (i128)a, p), std::cout << "int*f p=" << p << " a=" << a << " v=" << (long long)v);
      }
      bool eq = refmod(V, p) == a;
      CHECK(f == v, eq, std::cout << "f==int p=" << p << " a=" << a << " v=" << (long long)v); CHECK(v == f, eq, std::cout << "int==f");
      CHECK(f != v, !eq, std::cout << "f!=int"); CHECK(v != f, !eq, std::cout << "int!=f");
    }
  }
}
template <class F, bool with_inverse = true> void elem_checks(unsigned long long p, bool exhaustive, int nrand) {
  auto ops = reduced_operands(p, exhaustive, nrand);
  CHECK(F::get_characteristic(), p, std::cout << "characteristic");
  if constexpr (with_inverse) {
  CHECK(F::get_additive_identity().get_value(), 0, std::cout << "add id");
  CHECK(F::get_multiplicative_identity().get_value(), 1 % p, std::cout << "mult id");
  CHECK(F::get_partial_multiplicative_identity(p).get_value(), 1 % p, std::cout << "pmult id");
  }
  CHECK(F().get_value(), 0, std::cout << "default");
  for (auto a : ops) {
    F fa((unsigned long long)a);
    CHECK(fa.get_value(), a, std::cout << "value");
    CHECK((unsigned int)fa, (unsigned int)a, std::cout << "cast");
    if constexpr (with_inverse) {
      F inv = fa.get_inverse();
      if (a == 0) CHECK(inv.get_value(), 0, std::cout << "inv0");
      else { CHECK(inv.get_value() < p, 1, std::cout << "inv reduced"); CHECK(refmod((i128)inv.get_value() * a, p), 1 % p, std::cout << "inverse p=" << p << " a=" << a << " inv=" << (unsigned long long)inv.get_value());
             CHECK((fa * inv).get_value(), 1 % p, std::cout << "a*inv"); }
      auto pi = fa.get_partial_inverse(p);
      CHECK(pi.first.get_value(), inv.get_value(), std::cout << "pinv"); CHECK(pi.second, (typename F::Element)p, std::cout << "pinv Q");
    }
    { F m(fa); F n(std::move(m)); CHECK(n.get_value(), a, std::cout << "move"); CHECK(m.get_value(), 0, std::cout << "moved-from"); m = n; CHECK(m.get_value(), a, std::cout << "copy assign");
      F z; swap(z, m); CHECK(z.get_value(), a, std::cout << "swap"); CHECK(m.get_value(), 0, std::cout << "swap2"); }
    for (auto b : ops) {
      F fb((unsigned long long)b);
      CHECK((fa + fb).get_value(), refmod((i128)a + b, p), std::cout << "add p=" << p << " a=" << a << " b=" << b);
      CHECK((fa - fb).get_value(), refmod((i128)a - b, p), std::cout << "sub p=" << p << " a=" << a << " b=" << b);
      CHECK((fa * fb).get_value(), refmod((i128)a * b, p), std::cout << "mul p=" << p << " a=" << a << " b=" << b);
      { F g(fa); g += fb; CHECK(g.get_value(), refmod((i128)a + b, p), std::cout << "+="); }
      { F g(fa); g -= fb; CHECK(g.get_value(), refmod((i128)a - b, p), std::cout << "-="); }
      { F g(fa); g *= fb; CHECK(g.get_value(), refmod((i128)a * b, p), std::cout << "*="); }
      CHECK(fa == fb, a == b, std::cout << "=="); CHECK(fa != fb, a != b, std::cout << "!=");
    }
    { F g(fa); g += g; CHECK(g.get_value(), refmod((i128)2 * a, p), std::cout << "self +="); }
    { F g(fa); g *= g; CHECK(g.get_value(), refmod((i128)a * a, p), std::cout << "self *="); }
    { F g(fa); g -= g; CHECK(g.get_value(), 0, std::cout << "self -="); }
  }
  // a few triples (associativity / distributivity against the reference)
  for (int t = 0; t < 200; ++t) {
    auto a = ops[rng() % ops.size()], b = ops[rng() % ops.size()], c = ops[rng() % ops.size()];
    F fa((unsigned long long)a), fb((unsigned long long)b), fc((unsigned long long)c);
    CHECK((fa * fb + fc).get_value(), refmod((i128)a * b + c, p), std::cout << "a*b+c");
    CHECK(((fa + fb) * fc).get_value(), refmod(((i128)a + b) * c, p), std::cout << "(a+b)*c");
  }
  elem_int_checks<F, signed char>(p, ops); elem_int_checks<F, char>(p, ops); elem_int_checks<F, unsigned char>(p, ops);
  elem_int_checks<F, short>(p, ops); elem_int_checks<F, unsigned short>(p, ops);
  elem_int_checks<F, int>(p, ops); elem_int_checks<F, unsigned int>(p, ops);
  elem_int_checks<F, long>(p, ops); elem_int_checks<F, unsigned long>(p, ops);
  elem_int_checks<F, long long>(p, ops); elem_int_checks<F, unsigned long long>(p, ops);
  elem_int_checks<F, bool>(p, ops);
}

// operator class ---------------------------------------------------------------------------------------------------
template <class T> void op_checks(Zp_field_operators<T>& op, unsigned long long p, bool exhaustive, int nrand) {
  using E = T;
  auto ops = reduced_operands(p, exhaustive, nrand);
  CHECK(op.get_characteristic(), p, std::cout << "characteristic");
  // unreduced operands of type Element are legal too: "(e1 + e2) % characteristic"
  std::vector<unsigned long long> raw = ops;
  if (!exhaustive || p < 50) for (unsigned long long x : {(unsigned long long)std::numeric_limits<E>::max(), (unsigned long long)std::numeric_limits<E>::max() - 1, (unsigned long long)std::numeric_limits<E>::max() / 2 + 1, (unsigned long long)p, (unsigned long long)p + 1, 2 * p - 1})
    if (x <= (unsigned long long)std::numeric_limits<E>::max()) raw.push_back(x);
  for (auto a : raw) {
    E ea = (E)a;
    CHECK(op.get_value(ea), a % p, std::cout << "get_value");
    E inv = op.get_inverse(ea);
    if (a % p == 0) CHECK(inv, 0, std::cout << "inv0"); else { CHECK(inv < p, 1, std::cout << "inv reduced"); CHECK(refmod((i128)inv * (a % p), p), 1 % p, std::cout << "inverse " << tname<T>() << " p=" << p << " a=" << a << " inv=" << (unsigned long long)inv); }
    auto pi = op.get_partial_inverse(ea, (E)p); CHECK(pi.first, inv, std::cout << "pinv"); CHECK(pi.second, p, std::cout << "pinvQ");
    for (auto b : raw) {
      E eb = (E)b;
      CHECK(op.add(ea, eb), refmod((i128)a + b, p), std::cout << "add " << tname<T>() << " p=" << p << " a=" << a << " b=" << b);
      CHECK(op.subtract(ea, eb), refmod((i128)a - b, p), std::cout << "sub " << tname<T>() << " p=" << p << " a=" << a << " b=" << b);
      CHECK(op.multiply(ea, eb), refmod((i128)(a % p) * (b % p), p), std::cout << "mul " << tname<T>() << " p=" << p << " a=" << a << " b=" << b);
      { E x = ea; op.add_inplace(x, eb); CHECK(x, refmod((i128)a + b, p), std::cout << "add_inplace"); }
      { E x = ea; op.subtract_inplace_front(x, eb); CHECK(x, refmod((i128)a - b, p), std::cout << "sub_front"); }
      { E x = eb; op.subtract_inplace_back(ea, x); CHECK(x, refmod((i128)a - b, p), std::cout << "sub_back"); }
      { E x = ea; op.multiply_inplace(x, eb); CHECK(x, refmod((i128)(a % p) * (b % p), p), std::cout << "mul_inplace"); }
      CHECK(op.are_equal(ea, eb), (a % p) == (b % p), std::cout << "are_equal");
    }
  }
  // fused operations: documented "not overflow safe": only checked when the exact integer result fits Element
  // (and fits int when Element promotes to int)
  unsigned long long lim = std::numeric_limits<E>::max();
  if (sizeof(E) < sizeof(int)) lim = INT_MAX;
  for (int t = 0; t < (exhaustive && p <= 13 ? (int)(p * p * p) : 3000); ++t) {
    unsigned long long a, b, c;
    if (exhaustive && p <= 13) { a = t % p; b = (t / p) % p; c = t / p / p; } else { a = ops[rng() % ops.size()]; b = ops[rng() % ops.size()]; c = ops[rng() % ops.size()]; }
    E ea = (E)a, eb = (E)b, ec = (E)c;
    if ((i128)a * b + c <= lim) {
      CHECK(op.multiply_and_add(ea, eb, ec), refmod((i128)a * b + c, p), std::cout << "multiply_and_add " << tname<T>() << " p=" << p << " " << a << " " << b << " " << c);
      { E x = ea; op.multiply_and_add_inplace_front(x, eb, ec); CHECK(x, refmod((i128)a * b + c, p), std::cout << "maa_front"); }
      { E x = ec; op.multiply_and_add_inplace_back(ea, eb, x); CHECK(x, refmod((i128)a * b + c, p), std::cout << "maa_back"); }
    }
    if (((i128)a + b) * c <= lim && a + b <= lim) {
      CHECK(op.add_and_multiply(ea, eb, ec), refmod(((i128)a + b) * c, p), std::cout << "add_and_multiply " << tname<T>() << " p=" << p << " " << a << " " << b << " " << c);
      { E x = ea; op.add_and_multiply_inplace_front(x, eb, ec); CHECK(x, refmod(((i128)a + b) * c, p), std::cout << "aam_front"); }
      { E x = ec; op.add_and_multiply_inplace_back(ea, eb, x); CHECK(x, refmod(((i128)a + b) * c, p), std::cout << "aam_back"); }
    }
  }
  // get_value on every machine integer type
  auto gv = [&](auto dummy) { using I = decltype(dummy); for (I v : machine_ints<I>(p)) CHECK(op.get_value(v), refmod(as128(v), p), std::cout << "get_value(" << sizeof(I) << (std::is_signed_v<I> ? "s" : "u") << ") " << tname<T>() << " p=" << p << " v=" << (long long)v); };
  gv((signed char)0); gv((char)0); gv((unsigned char)0); gv((short)0); gv((unsigned short)0); gv(0); gv(0u); gv(0l); gv(0ul); gv(0ll); gv(0ull); gv(false);
  CHECK(op.get_additive_identity(), 0, std::cout << "addid"); CHECK(op.get_multiplicative_identity(), 1, std::cout << "multid"); CHECK(op.get_partial_multiplicative_identity((E)p), 1, std::cout << "pmultid");
  // copy / move / assign / swap keep the field
  { Zp_field_operators<T> c(op); CHECK(c.get_characteristic(), p, std::cout << "copy char"); CHECK(c.get_inverse((E)(p - 1)), p - 1, std::cout << "copy inv");
    Zp_field_operators<T> m(std::move(c)); CHECK(m.get_characteristic(), p, std::cout << "move char"); CHECK(m.get_inverse((E)(p - 1)), p - 1, std::cout << "move inv");
    Zp_field_operators<T> a2; a2 = m; CHECK(a2.get_characteristic(), p, std::cout << "assign char"); CHECK(a2.multiply((E)(p - 1), (E)(p - 1)), 1 % p, std::cout << "assign mul");
    Zp_field_operators<T> s(3); swap(s, a2); CHECK(s.get_characteristic(), p, std::cout << "swap char"); CHECK(a2.get_characteristic(), 3, std::cout << "swap char2"); CHECK(a2.get_inverse((E)2), 2, std::cout << "swap inv"); }
}

// Shared_Zp_field_element<T>::initialize computes `Element mult = inv * i`: for T narrower than int the product is cut to
// T as soon as (p-1)^2 > max(T) and initialize() then stores wrong inverses or never returns (defect 2 in defects.md).
// Those configurations are skipped here so that the rest can run.
template <class T> bool shared_init_usable(unsigned long long p) { return sizeof(T) >= sizeof(int) || (p - 1) * (p - 1) <= (unsigned long long)std::numeric_limits<T>::max(); }

template <class T> void run_runtime(const std::vector<unsigned long long>& small_primes, const std::vector<unsigned long long>& big_primes) {
  unsigned long long tmax = std::numeric_limits<T>::max();
  for (auto p : small_primes) if (p <= tmax) {
    if (shared_init_usable<T>(p)) { Shared_Zp_field_element<T>::initialize((T)p); elem_checks<Shared_Zp_field_element<T> >(p, p <= 131, 30); }
    Zp_field_operators<T> op((T)p); op_checks<T>(op, p, p <= 131, 30);
  }
  for (auto p : big_primes) if (p <= tmax) {
    if (shared_init_usable<T>(p)) { Shared_Zp_field_element<T>::initialize((T)p); elem_checks<Shared_Zp_field_element<T> >(p, false, 40); }
    Zp_field_operators<T> op; op.set_characteristic((T)p); op_checks<T>(op, p, false, 40);
  }
  std::cout << tname<T>() << " run-time classes done, checks so far " << nchecks << " failures " << nfail << std::endl;
}
template <class T> void refusals() {
  for (unsigned long long c : {0ull, 1ull, 4ull, 6ull, 8ull, 9ull, 15ull, 21ull, 25ull, 49ull, 91ull, 121ull, 169ull, 221ull, 255ull, 65535ull, 65533ull, 65025ull}) if (c <= std::numeric_limits<T>::max()) {
    bool thrown = false;
    if (c < 2 || shared_init_usable<T>(c)) { try { Shared_Zp_field_element<T>::initialize((T)c); } catch (const std::invalid_argument&) { thrown = true; } CHECK(thrown, 1, std::cout << "Shared refuses " << c << " " << tname<T>()); }
    thrown = false; try { Zp_field_operators<T> op; op.set_characteristic((T)c); } catch (const std::invalid_argument&) { thrown = true; } CHECK(thrown, 1, std::cout << "operators refuse " << c << " " << tname<T>());
    if (c != 0) { thrown = false; try { Zp_field_operators<T> op((T)c); } catch (const std::invalid_argument&) { thrown = true; } CHECK(thrown, 1, std::cout << "operators ctor refuses " << c << " " << tname<T>()); }
  }
}
template <unsigned int p, class T, bool with_inverse> void run_static() { elem_checks<Zp_field_element<p, T>, with_inverse>(p, p <= 131, 40); }

#ifndef GROUP
#define GROUP 0   // 0 = everything in one binary (slow to compile: about 8 minutes with the sanitizers); 1..4 = one quarter
#endif
int main(int argc, char** argv) {
  int mode = argc > 1 ? atoi(argv[1]) : 0;   // 0: everything but the slow primes, 1: also primes near 2^15 / 2^16 in the run-time classes
  std::vector<unsigned long long> small; for (unsigned long long p = 2; p < 300; ++p) if (is_prime(p)) small.push_back(p);
  std::vector<unsigned long long> big = {509, 521, 1021, 1031, 4093, 4099, 8191};
  if (mode >= 1) for (unsigned long long p : {16381ull, 32749ull, 32771ull, 46337ull, 46349ull, 65519ull, 65521ull}) big.push_back(p);
#if GROUP == 0 || GROUP == 1
  // compile-time characteristic, default element type: every operation
  run_static<2, unsigned int, true>(); run_static<3, unsigned int, true>(); run_static<5, unsigned int, true>(); run_static<7, unsigned int, true>();
  run_static<13, unsigned int, true>(); run_static<127, unsigned int, true>(); run_static<131, unsigned int, true>(); run_static<251, unsigned int, true>();
  run_static<257, unsigned int, true>(); run_static<32749, unsigned int, true>(); run_static<32771, unsigned int, true>(); run_static<46337, unsigned int, true>();
  run_static<65519, unsigned int, true>(); run_static<65521, unsigned int, true>(); run_static<65537, unsigned int, true>();
  std::cout << "compile-time classes (unsigned int) done, checks so far " << nchecks << " failures " << nfail << std::endl;
#endif
#if GROUP == 0 || GROUP == 2
  // other element types: get_inverse / get_*_identity do not compile (they return Zp_field_element<p> with the default type), the rest is tested
  run_static<2, unsigned char, false>(); run_static<251, unsigned char, false>(); run_static<127, unsigned char, false>(); run_static<131, unsigned char, false>();
  run_static<251, unsigned short, false>(); run_static<65521, unsigned short, false>(); run_static<32771, unsigned short, false>();
  run_static<65521, unsigned long, false>(); run_static<7, unsigned long long, false>();
  std::cout << "compile-time classes (other types) done, checks so far " << nchecks << " failures " << nfail << std::endl;
#endif
#if GROUP == 0 || GROUP == 3
  refusals<unsigned int>(); refusals<unsigned long>(); refusals<unsigned long long>();
  run_runtime<unsigned int>(small, big);
  run_runtime<unsigned long>(small, big);
  run_runtime<unsigned long long>(small, big);
#endif
#if GROUP == 0 || GROUP == 4
  refusals<unsigned char>(); refusals<unsigned short>();
  run_runtime<unsigned short>(small, big);
  run_runtime<unsigned char>(small, big);
#endif
  std::cout << nchecks << " checks, " << nfail << " failures" << std::endl;
  std::cout << (nfail ? "FAIL" : "PASS") << std::endl;
  return nfail ? 1 : 0;
}

/* COVERAGE (library exactly as in the worktree, g++ 12.2, -std=gnu++17)
   Build: g++ -std=gnu++17 -O1 -g -fsanitize=address,undefined -DGROUP=<1..4> <includes> fuzz_zp.cpp -o fuzz_zp_g<n>   (GROUP=0: all in one, ~8 min of compilation)
   Run:   ./fuzz_zp_g<n> 1      (argument 1 adds the primes 16381 32749 32771 46337 46349 65519 65521 to the run-time classes)
   Reference: exact arithmetic in __int128 reduced with a sign-correct %, inverse checked by multiplication (x * inv mod p == 1).

   What is compared, for every class: construction / assignment from every native integer type (bool, char, signed/unsigned char,
   short, int, long, long long and unsigned versions; values 0, +-1, +-2, +-p, +-p+-1, 2p, the limits of every type and the
   powers of two around 2^7, 2^8, 2^15, 2^16, 2^31, 2^32, random values), += -= *= + - * == != between elements, between an
   element and an integer, and between an integer and an element, self-aliased operations, copy / move (moved-from == 0) /
   assignment / swap, identities, get_inverse, get_partial_inverse, cast to unsigned int, a*b+c and (a+b)*c on random triples.
   Zp_field_operators additionally: get_value for every integer type, every binary function and its in-place front / back forms
   on REDUCED and on UNREDUCED Element operands (max(T), max(T)-1, p, p+1, 2p-1 ...), are_equal, the six fused functions on all
   triples for p <= 13 and 3000 random triples otherwise (only when the exact integer result fits the type: documented "not
   overflow safe"), copy / move / assignment / swap of the operator object.
   Operands: all residues (all pairs) for p <= 131, otherwise 0 1 2 3 p-1 p-2 p-3 p/2 p/2+-1 p/3 255 256 257 32767 32768 plus
   30-40 random residues (all pairs).

   PASSED WITHOUT FINDING ANYTHING (sanitizers on; every group also with -O2 -DNDEBUG without sanitizers: same counts):
   GROUP 1  Zp_field_element<p> (unsigned int), p = 2 3 5 7 13 127 131 251 257 32749 32771 46337 65519 65521 65537: 851 333 checks.
   GROUP 2  Zp_field_element<p,T> for T != unsigned int (without identities and inverses, which do not compile for these T,
            see defects.md "compile time"): <2,uchar> <127,uchar> <131,uchar> <251,uchar> <251,ushort> <32771,ushort>
            <65521,ushort> <65521,ulong> <7,ulonglong>: 616 946 checks.
   GROUP 3  Shared_Zp_field_element<T> and Zp_field_operators<T>, T = unsigned int, unsigned long, unsigned long long:
            all 62 primes below 300, then 509 521 1021 1031 4093 4099 8191 16381 32749 32771 46337 46349 65519 65521;
            refusal of 0 1 4 6 8 9 15 21 25 49 91 121 169 221 255 65535 65533 65025: 22 776 870 checks.
   GROUP 4  Zp_field_operators<unsigned short> (same primes, up to 65521) and <unsigned char> (primes up to 251), same
            refusals; Shared_Zp_field_element<unsigned short> only for p <= 251 and <unsigned char> only for p <= 13:
            beyond that initialize() stores wrong inverses or hangs (defect 3): 9 306 466 checks.
   Not covered: characteristics above 65537 for the compile-time class (a thread_local array of p unsigned int per
   instantiation: p = 2^31-1 or 2^32-5 does not link), threads. */

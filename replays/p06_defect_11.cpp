// Finding 11 (OUTSIDE property C06: a fresh matrix is enough, no swap needed; found because the harness also reads the
// representative cycles after every step) - RU matrices over Z2 return "representative cycles" which are not cycles.
//
//   ru_rep_cycles.h:137-158 (is_z2 branch of update_representative_cycles): the cycle of the positive column i is
//   read as {j : stored mirror column j has an entry in row i}.
// Over Z2 the mirror matrix is stored transposed (RU_matrix.h:866-869: "mirrorMatrixU_.get_column(source).push_back(
// target)") and represents U with D = R * U, i.e. the INVERSE of the matrix V with R = D * V whose columns are the
// cycles. Column i of U is a cycle only when the columns used to reduce column i were themselves never reduced.
// The Zp branch (lines 159-175) mirrors the column operations (RU_matrix.h:876-879), stores V and is right; the chain
// matrix is right too.
//
// Example: vertices a b c, edges ac bc ab (in this order). R_bc = bc + ac, R_ab = ab + R_bc = 0. The cycle is
// ab + bc + ac = {3,4,5}; the library returns {4,5} = bc + ab, whose boundary is a + c.
//
// Build: g++ -std=gnu++17 -O1 -g -fsanitize=address,undefined -I<gudhi includes> defect_11.cpp -o defect_11
#include <gudhi/Matrix.h>
#include <gudhi/persistence_matrix_options.h>

#include <iostream>
#include <set>
using namespace Gudhi::persistence_matrix;

template <bool vine>
struct Opt : Default_options<Column_types::INTRUSIVE_SET, true> {
  static const bool has_column_pairings = true;
  static const bool has_vine_update = vine;
  static const bool can_retrieve_representative_cycles = true;
};
using B = std::vector<unsigned>;

template <class M>
bool run(const char* name) {
  std::vector<B> bds = {{}, {}, {}, {0, 2}, {1, 2}, {0, 1}};
  M m(bds);
  m.update_representative_cycles();
  bool ok = true;
  for (auto& b : m.get_current_barcode()) {
    std::set<unsigned> boundary;
    std::cout << name << ": bar " << b << " cycle {";
    for (auto c : m.get_representative_cycle(b)) {
      std::cout << c << " ";
      for (unsigned f : bds[c])
        if (!boundary.erase(f)) boundary.insert(f);
    }
    std::cout << "} boundary {";
    for (unsigned f : boundary) std::cout << f << " ";
    std::cout << "}" << (boundary.empty() ? "" : "   <-- not a cycle") << "\n";
    if (!boundary.empty()) ok = false;
  }
  return ok;
}

int main() {
  bool ok = run<Matrix<Opt<true>>>("RU with vine updates");
  ok = run<Matrix<Opt<false>>>("RU without vine updates") && ok;
  std::cout << (ok ? "PASS" : "FAIL") << std::endl;
  return ok ? 0 : 1;
}

// defect_3: Filtered_zigzag_persistence_with_storage::get_persistence_diagram drops (or keeps) bars according to
// `death - birth > shortestInterval` (filtered_zigzag_persistence.h:350). With an integer Filtration_value (allowed by
// the FilteredZigzagOptions concept: "Type for filtration values", the documentation of Persistence_interval::inf
// explicitly covers signed and unsigned integer types) the difference overflows for a bar longer than the range of the
// type: undefined behaviour (UBSan), in practice a negative length, and the LONGEST bar of the diagram is omitted,
// although the front-end must omit only zero-length bars. The streaming front-end (which tests birth != death) reports
// the bar, so the two front-ends disagree on the same input.
//
// build: g++ -std=gnu++17 -O1 -g -fsanitize=address,undefined $(ls -d /repo/src/*/include | sed 's/^/-I/') \
//            defect_3.cpp -o defect_3
// run  : ./defect_3
//
// Sequence: vertices a, b at -2000000000, edge ab at 2000000000.
// Expected: closed [0] -2000000000 - 2000000000 and one infinite bar [0] -2000000000 - inf.
#include <gudhi/filtered_zigzag_persistence.h>
#include <cstdio>
#include <iostream>

using namespace Gudhi::zigzag_persistence;
struct Options : Default_filtered_zigzag_options {
  using Filtration_value = int;
};

int main() {
  const int lo = -2000000000, hi = 2000000000;
  int streamed = 0;
  Filtered_zigzag_persistence<Options> zs([&](int d, int b, int e) {
    std::printf("streaming front-end : [%d] %d - %d\n", d, b, e);
    ++streamed;
  });
  zs.insert_cell(0, {}, 0, lo);
  zs.insert_cell(1, {}, 0, lo);
  zs.insert_cell(2, {0, 1}, 1, hi);

  Filtered_zigzag_persistence_with_storage<Options> zp;
  zp.insert_cell(0, {}, 0, lo);
  zp.insert_cell(1, {}, 0, lo);
  zp.insert_cell(2, {0, 1}, 1, hi);
  int finite = 0;
  for (auto& bar : zp.get_persistence_diagram(0, false)) {
    std::cout << "storage front-end   : " << bar << "\n";
    ++finite;
  }
  std::printf("index diagram of the storage front-end has %zu closed bar(s)\n", zp.get_index_persistence_diagram().size());
  std::printf("finite bars: streaming %d, storage %d, expected 1\n", streamed, finite);
  bool ok = streamed == 1 && finite == 1;
  std::printf("%s\n", ok ? "PASS" : "FAIL");
  return ok ? 0 : 1;
}

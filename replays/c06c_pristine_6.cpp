// Pristine defect 6 (property C06, RU matrix, position indexing, custom cell IDs, map column container):
// remove_last() erases the lazy-swap entry of the row whose ID equals the POSITION of the removed cell
// (Boundary_matrix::remove_last calls erase_empty_row(nextInsertIndex_)), although with custom IDs this row belongs to
// another, still present, cell. The next lazy reordering of the rows (after any vine swap) fails on the entries of that row.
//
// Filtration (position: cell, ID): 0: a (0), 1: b (1), 2: v (2), 3: w (5), 4: e = {v,w} (6), 5: x (8).
// remove_last() removes x at position 5 and wrongly forgets row 5, which is the row of w and holds an entry of e.
// Then vine_swap(0) exchanges the isolated vertices a and b: nothing else changes, but reading the matrix fails.
#include <gudhi/Matrix.h>
#include <gudhi/persistence_matrix_options.h>
#include <iostream>
#include <set>
#include <tuple>
#include <vector>

using namespace Gudhi::persistence_matrix;

struct RU_opts : Default_options<Column_types::INTRUSIVE_SET, true> {
  static const bool has_vine_update = true;
  static const bool has_column_pairings = true;
  static const bool has_removable_columns = true;
  static const bool has_map_column_container = true;
};
using M = Matrix<RU_opts>;
using B = std::vector<unsigned int>;
using Bars = std::multiset<std::tuple<int, int, int> >;

Bars bars(M& m) {
  Bars b;
  for (const auto& bar : m.get_current_barcode())
    b.insert({bar.dim, (int)bar.birth, bar.death == M::get_null_value<unsigned int>() ? -1 : (int)bar.death});
  return b;
}
void print(const char* n, const Bars& b) {
  std::cout << n;
  for (auto& t : b) std::cout << " [" << std::get<0>(t) << ": " << std::get<1>(t) << ", " << std::get<2>(t) << "]";
  std::cout << "\n";
}

int main() {
  bool ok = true;
  try {
    M m;
    m.insert_boundary(0, B{});
    m.insert_boundary(1, B{});
    m.insert_boundary(2, B{});
    m.insert_boundary(5, B{});
    m.insert_boundary(6, B{2, 5});
    m.insert_boundary(8, B{});
    m.remove_last();
    bool r = m.vine_swap(0);
    std::cout << "vine_swap(0) returned " << r << "\n";
    Bars expected = {{0, 0, -1}, {0, 1, -1}, {0, 2, -1}, {0, 3, 4}};
    print("matrix  :", bars(m));
    print("expected:", expected);
    if (bars(m) != expected) ok = false;
    auto content = m.get_column(4).get_content(10);
    std::cout << "R column of the edge:";
    for (unsigned int i = 0; i < content.size(); ++i)
      if (content[i]) std::cout << " " << i;
    std::cout << "\n";
    if (!(content[2] && content[5])) ok = false;
  } catch (const std::exception& e) {
    std::cout << "exception: " << e.what() << "\n";
    ok = false;
  }
  std::cout << (ok ? "PASS" : "FAIL") << std::endl;
  return ok ? 0 : 1;
}

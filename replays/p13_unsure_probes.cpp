// unsure_probes.cpp - behaviours that were reproduced and understood but whose legality is doubtful (the documentation
// is silent). Run with one argument:
//   0 : Bitmap_cubical_complex<periodic>(dimensions, cells, directions) with fewer values than cells reads past the end
//       of `cells` (Bitmap_cubical_complex_periodic_boundary_conditions_base.h:318-321, and :337-340 for vertices); with
//       more values the surplus is ignored. The non periodic class checks the count and throws std::invalid_argument
//       (Bitmap_cubical_complex_base.h:667-677 and 698-708). -> heap-buffer-overflow under AddressSanitizer.
//   1 : a grid of dimension 0 (empty vector of sizes, one value), top cell convention: top_dimensional_cells_iterator_end
//       does a.counter[0]++ on an empty vector (Bitmap_cubical_complex_base.h:403) -> null pointer write.
//   2 : the same with the vertex convention: for_each_vertex_rec(f, 0, multipliers.size()-1) is called with dim = -1 and
//       reads sizes[0] of an empty vector (Bitmap_cubical_complex_base.h:553, 1021) -> null pointer read.
//   3 : the Perseus reader of the periodic class accepts a file with fewer values than top cells (the missing ones stay
//       +inf); the reader of the non periodic class throws std::ios_base::failure for the same file
//       (Bitmap_cubical_complex_base.h:805-809; no such check after the loop at
//       Bitmap_cubical_complex_periodic_boundary_conditions_base.h:382-401).
// build: g++ -std=gnu++17 -O1 -g -fsanitize=address,undefined -I<gudhi includes> unsure_probes.cpp -o unsure_probes
#include <gudhi/Bitmap_cubical_complex.h>
#include <gudhi/Bitmap_cubical_complex_periodic_boundary_conditions_base.h>
#include <cstdio>
#include <fstream>
#include <iostream>
#include <vector>
typedef Gudhi::cubical_complex::Bitmap_cubical_complex_base<double> Base;
typedef Gudhi::cubical_complex::Bitmap_cubical_complex_periodic_boundary_conditions_base<double> PBase;
typedef Gudhi::cubical_complex::Bitmap_cubical_complex<Base> Cpx;
typedef Gudhi::cubical_complex::Bitmap_cubical_complex<PBase> PCpx;
int main(int argc, char** argv) {
  int which = argc > 1 ? atoi(argv[1]) : 0;
  if (which == 0) {
    try {
      Cpx c(std::vector<unsigned>{3, 3}, std::vector<double>{1, 2, 3, 4});
    } catch (std::invalid_argument&) {
      std::cout << "non periodic class: std::invalid_argument for 4 values on a 3 x 3 grid" << std::endl;
    }
    PCpx c(std::vector<unsigned>{3, 3}, std::vector<double>{1, 2, 3, 4}, std::vector<bool>{true, false});
    std::cout << "periodic class: no exception, cells " << c.num_simplices() << std::endl;
  }
  if (which == 1) {
    Cpx c(std::vector<unsigned>{}, std::vector<double>{1});
    std::cout << "cells " << c.num_simplices() << " dim " << c.dimension() << std::endl;
  }
  if (which == 2) {
    Cpx c(std::vector<unsigned>{}, std::vector<double>{1}, false);
    std::cout << "cells " << c.num_simplices() << " dim " << c.dimension() << std::endl;
  }
  if (which == 3) {
    const char* name = "unsure_perseus.txt";
    {
      std::ofstream f(name);
      f << "1\n3\n1\n2\n";  // 3 top cells, 2 values
    }
    try {
      Cpx c(name);
      std::cout << "non periodic reader: accepted" << std::endl;
    } catch (std::ios_base::failure& e) {
      std::cout << "non periodic reader: std::ios_base::failure (" << e.what() << ")" << std::endl;
    }
    PCpx p(name);
    std::cout << "periodic reader: accepted, top cells";
    for (auto t : p.top_dimensional_cells_range()) std::cout << " " << p.filtration(t);
    std::cout << std::endl;
    std::remove(name);
  }
}

// defect_2.cpp  -  star_simplex_range / cofaces_simplex_range with Options::link_nodes_by_label == true copy an
// UNINITIALISED bool (undefined behaviour, reported by -fsanitize=undefined).
//
// Simplex_tree_optimized_star_simplex_iterator has a member `bool is_root_` (Simplex_tree_star_simplex_iterators.h:272).
// The default constructor, used for every end() iterator (line 171: `... () : st_(nullptr) {}`), does not initialise it,
// and cofaces_simplex_range() (Simplex_tree.h:1452-1456) copies that end iterator several times
// (iterator_range, boost::adaptors::filter, filter_iterator): each copy loads the indeterminate bool.
//
// build: g++ -std=gnu++17 -O1 -g -fsanitize=address,undefined -fno-sanitize-recover=undefined -I<gudhi includes> defect_2.cpp -o defect_2
// run:   ./defect_2
// observed: "Simplex_tree_star_simplex_iterators.h:160:7: runtime error: load of value N, which is not a valid value
//            for type 'bool'" and abort (non-zero exit status).  Expected: prints PASS.
// The stack is poisoned first so that the indeterminate byte is deterministically not 0/1; without that the report
// depends on what the stack happens to contain (in the fuzzers it fires in every run).
#include <gudhi/Simplex_tree.h>
#include <iostream>
#include <cstring>

__attribute__((noinline)) void poison_stack() {
  volatile char buf[1 << 16];
  for (unsigned i = 0; i < sizeof(buf); ++i) buf[i] = (char)0xAA;
}

template <class ST> __attribute__((noinline)) int count_star(const ST& st) {
  int n = 0;
  for (auto sh : st.star_simplex_range(st.find({0}))) { (void)sh; ++n; }
  for (auto sh : st.cofaces_simplex_range(st.find({0}), 1)) { (void)sh; ++n; }
  return n;
}

int main() {
  Gudhi::Simplex_tree<Gudhi::Simplex_tree_options_full_featured> st;
  st.insert_simplex_and_subfaces({0, 1, 2}, 1.);
  poison_stack();
  int n = count_star(st);
  std::cout << "star of {0} has 4 simplices, 2 cofaces of codimension 1: counted " << n << " (expected 6)" << std::endl;
  std::cout << (n == 6 ? "PASS (no sanitizer report)" : "FAIL") << std::endl;
  return n == 6 ? 0 : 1;
}

// Pristine defect (outside the literal statement of C07, which does not mention copies): a copy (or a moved-to
// instance) of Zigzag_persistence keeps using the SOURCE object.  The comparators given to the internal matrix in the
// constructor are lambdas capturing `this`; the implicitly generated copy/move constructors copy them verbatim, so
// the vine swaps of the copy read `matrix_` / `births_` / `birthOrdering_` of the source.
// Here the source goes on with a different history after the copy (it is emptied), and the copy is fed the very same
// suffix as a reference instance: the results differ (or an exception escapes from the copy).
#include <gudhi/zigzag_persistence.h>

#include <algorithm>
#include <iostream>
#include <tuple>
#include <vector>

using ZP = Gudhi::zigzag_persistence::Zigzag_persistence<>;
using Bar = std::tuple<int, int, int>;

static void prefix(ZP& zp) {
  for (int i = 0; i < 5; ++i) zp.insert_cell({}, 0);  // 0..4
  zp.insert_cell({0, 1}, 1);                          // 5
  zp.insert_cell({1, 2}, 1);                          // 6
  zp.insert_cell({2, 3}, 1);                          // 7
  zp.insert_cell({3, 4}, 1);                          // 8
  zp.remove_cell(5);                                  // 9
  zp.remove_cell(6);                                  // 10
}
static void suffix(ZP& zp) {
  zp.remove_cell(7);          // 11
  zp.remove_cell(8);          // 12
  zp.insert_cell({0, 4}, 1);  // 13
  zp.insert_cell({1, 3}, 1);  // 14
}

int main() {
  std::vector<Bar> ref, got;
  {
    ZP zp([&](int d, int b, int e) { ref.emplace_back(d, b, e); });
    prefix(zp);
    suffix(zp);
    zp.get_current_infinite_intervals([&](int d, int b) { ref.emplace_back(d, b, -1); });
  }
  bool threw = false;
  {
    ZP orig([&](int d, int b, int e) { got.emplace_back(d, b, e); });
    prefix(orig);
    ZP copy(orig);
    try {
      // the source continues on its own: everything is removed
      orig.remove_cell(7);
      orig.remove_cell(8);
      for (int v = 4; v >= 0; --v) orig.remove_cell(v);
      got.clear();
      { std::vector<Bar> tmp; ZP zp([&](int d, int b, int e) { tmp.emplace_back(d, b, e); }); prefix(zp); got = tmp; }
      suffix(copy);
      copy.get_current_infinite_intervals([&](int d, int b) { got.emplace_back(d, b, -1); });
    } catch (const std::exception& e) {
      std::cout << "exception from the copy: " << e.what() << "\n";
      threw = true;
    }
  }
  std::sort(ref.begin(), ref.end());
  std::sort(got.begin(), got.end());
  auto print = [](const char* n, const std::vector<Bar>& v) {
    std::cout << n << ":";
    for (auto& b : v) std::cout << " (" << std::get<0>(b) << "," << std::get<1>(b) << "," << std::get<2>(b) << ")";
    std::cout << "\n";
  };
  print("reference", ref);
  print("copy     ", got);
  bool ok = !threw && ref == got;
  std::cout << (ok ? "PASS" : "FAIL") << "\n";
  return ok ? 0 : 1;
}

#include <gudhi/Toplex_map.h>
#include <gudhi/Lazy_toplex_map.h>
#include <iostream>
#include <vector>
#include <memory>
using Gudhi::Toplex_map; using Gudhi::Lazy_toplex_map;
using V = std::vector<std::size_t>;
int main(int argc, char** argv){
  int w = atoi(argv[1]);
  if (w == 0) {   // eager contraction with a large label
    Toplex_map m; std::size_t big = 3000000000ULL;
    m.insert_simplex(V{1, big}); m.insert_simplex(V{1, 7});
    try { auto r = m.contraction(1, big); std::cout << "contraction(1, 3000000000) returned " << r << ", {7," << r << "} member: " << m.membership(V{7, r}) << "\n"; }
    catch (std::exception& e) { std::cout << "contraction(1, 3000000000) threw " << e.what() << "\nFAIL\n"; return 1; }
    Toplex_map ref; ref.insert_simplex(V{1, 5}); ref.insert_simplex(V{1, 7}); auto r2 = ref.contraction(1, 5); std::cout << "same with label 5: returned " << r2 << ", {7," << r2 << "} member: " << ref.membership(V{7, r2}) << "\n";
  }
  if (w == 1) {   // lazy: remove the empty simplex then insert again
    Lazy_toplex_map m; m.insert_simplex(V{1, 2}); m.remove_simplex(V{}); m.insert_simplex(V{1, 2});
    std::cout << "member {1,2}: " << m.membership(V{1, 2}) << "\n";
  }
  if (w == 2) {   // lazy: copy, destroy the source, use the copy
    auto src = std::make_unique<Lazy_toplex_map>(); src->insert_simplex(V{1, 2}); src->insert_simplex(V{2, 3});
    Lazy_toplex_map copy(*src);
    src.reset();
    copy.insert_simplex(V{1, 3}); copy.insert_simplex(V{1, 2, 3});
    std::cout << "copy member {1,2,3}: " << copy.membership(V{1, 2, 3}) << "\n";
  }
  std::cout << "PASS\n"; return 0;
}

#include <gudhi/Matrix.h>
#include <gudhi/persistence_matrix_options.h>
#include <iostream>
using namespace Gudhi::persistence_matrix;
template<Column_types C> struct Plain : Default_options<C, true> { };
template<Column_types C> int run(const char* n){
  Matrix<Plain<C>> p;
  p.insert_column(std::vector<unsigned>{0,1,3});
  p.get_column(0) *= 2;
  std::cout<<n<<": column *= 2 over Z_2 -> ["; for(auto& e: p.get_column(0)) std::cout<<e.get_row_index()<<" "; std::cout<<"] zero="<<p.is_zero_column(0)<<std::endl;
  return p.is_zero_column(0) ? 0 : 1;
}
int main(){
  int bad=0;
  bad+=run<Column_types::INTRUSIVE_SET>("intrusive_set");
  bad+=run<Column_types::INTRUSIVE_LIST>("intrusive_list");
  bad+=run<Column_types::LIST>("list");
  bad+=run<Column_types::SET>("set");
  bad+=run<Column_types::UNORDERED_SET>("unordered_set");
  bad+=run<Column_types::VECTOR>("vector");
  bad+=run<Column_types::NAIVE_VECTOR>("naive_vector");
  bad+=run<Column_types::HEAP>("heap");
  std::cout<<(bad?"FAIL":"PASS")<<"\n"; return bad;
}

// Pristine defect 1: the fused operations of the operator classes wrap the machine word on REDUCED operands.
//   Zp_field_operators<>::add_and_multiply(e, a, m) computes (e + a) * m in unsigned int: for p > 46341 the
//   product 2(p-1)(p-1) exceeds 2^32 (p = 65521, all operands p-1).
//   Zp_field_operators<unsigned short>::multiply_and_add(e, m, a) computes e * m + a in (signed) int after integer
//   promotion: overflows for p > 46341.
//   Multi_field_operators_with_small_characteristics::multiply_and_add computes e * m + a in unsigned int although
//   the product of the range [3,30] (3234846615) is accepted.
// (The documentation of these functions carries "@warning Not overflow safe.")
#include <iostream>
#include <gudhi/Fields/Zp_field_operators.h>
#include <gudhi/Fields/Multi_field_small_operators.h>

using namespace Gudhi::persistence_fields;

int main() {
  int failures = 0;
  {
    Zp_field_operators<> op(65521);
    unsigned int e = 65520, a = 65520, m = 65520;
    unsigned long long expected = ((1ull * e + a) % 65521 * m) % 65521;  // 2
    unsigned int got = op.add_and_multiply(e, a, m);
    std::cout << "Zp_field_operators<unsigned int>(65521).add_and_multiply(65520,65520,65520) = " << got
              << ", expected " << expected << ", add then multiply = " << op.multiply(op.add(e, a), m) << std::endl;
    if (got != expected) ++failures;
    unsigned int front = e;
    op.add_and_multiply_inplace_front(front, a, m);
    if (front != expected) ++failures;
  }
  {
    Zp_field_operators<unsigned short> op(65521);
    unsigned short e = 65520, m = 65520, a = 5;
    unsigned long long expected = (1ull * e * m + a) % 65521;  // 6
    unsigned int got = op.multiply_and_add(e, m, a);
    std::cout << "Zp_field_operators<unsigned short>(65521).multiply_and_add(65520,65520,5) = " << got
              << ", expected " << expected << std::endl;
    if (got != expected) ++failures;
  }
  {
    Multi_field_operators_with_small_characteristics op(3, 30);
    unsigned int P = op.get_characteristic();  // 3234846615
    unsigned int e = 100000, m = 100000, a = 7;
    unsigned long long expected = (1ull * e * m + a) % P;
    unsigned int got = op.multiply_and_add(e, m, a);
    std::cout << "Multi_field_operators_with_small_characteristics(3,30).multiply_and_add(100000,100000,7) = " << got
              << ", expected " << expected << ", multiply then add = " << op.add(op.multiply(e, m), a) << std::endl;
    if (got != expected) ++failures;
  }
  std::cout << (failures == 0 ? "PASS" : "FAIL") << std::endl;
  return failures == 0 ? 0 : 1;
}

// defect_4.cpp - utility distance_matrix_edge_collapse_rips_persistence ignores -p / --field-charac: the coefficient
// field is hard-coded to Z/3Z (`pcoh.init_coefficients(3);`), whatever the user asks for (documented default 11).
// The printed diagram is labelled "3" and, on an input with 2-torsion, is NOT the Z/2Z diagram that was requested.
//
// Input: the 31-vertex barycentric subdivision of the 6-vertex projective plane, as a distance matrix (1 between a
// face and a sub-face, 2 otherwise), Rips threshold 1: the flag complex is RP^2.  With -p 2 the expected infinite bars
// are H0, H1 and H2 (Z/2Z Betti numbers 1,1,1 - checked below by an independent brute-force Z/2 reduction); the utility
// prints the Z/3Z answer (Betti 1,0,0).
//
// Build: g++ -std=gnu++17 -O1 -g -fsanitize=address,undefined $(ls -d /repo/src/*/include | sed 's/^/-I/') \
//            defect_4.cpp -o defect_4 -lboost_program_options -ltbb && ./defect_4
//
// Cause: src/Collapse/utilities/distance_matrix_edge_collapse_rips_persistence.cpp l.89 `pcoh.init_coefficients(3);`
// - the option value `p` (l.40, l.120) is parsed and never used.  point_cloud_edge_collapse_rips_persistence.cpp
// l.118 correctly calls init_coefficients(p).  collapse.md documents -p for both ("Same as point_cloud_... but taking
// a distance matrix as input", example "... -r 15 -d 3 -p 3 -m 0").

#define main utility_main
#include "/repo/src/Collapse/utilities/distance_matrix_edge_collapse_rips_persistence.cpp"
#undef main

#include <algorithm>
#include <cstdio>
#include <fstream>
#include <functional>
#include <iostream>
#include <map>
#include <set>
#include <sstream>
#include <string>

// ---- independent reference: brute-force persistence (Z/2) of the flag filtration of a weighted graph --------------
// returns the diagram as sorted strings "dim d [b, e)", zero-length intervals dropped; vertices are born before all.
template <class V, class F>
std::vector<std::string> diagram(std::vector<V> const& verts, std::vector<std::tuple<V, V, F>> const& edges) {
  int n = (int)verts.size();
  std::map<V, int> idx;
  for (int i = 0; i < n; ++i) idx[verts[i]] = i;
  std::vector<std::vector<char>> adj(n, std::vector<char>(n, 0));
  std::vector<std::vector<F>> w(n, std::vector<F>(n, F()));
  for (auto const& e : edges) {
    int a = idx.at(std::get<0>(e)), b = idx.at(std::get<1>(e));
    adj[a][b] = adj[b][a] = 1;
    w[a][b] = w[b][a] = std::get<2>(e);
  }
  struct S { std::vector<int> v; int lvl; F k; };  // lvl 0: vertex (born before everything)
  auto less = [](S const& a, S const& b) { return a.lvl != b.lvl ? a.lvl < b.lvl : (a.lvl == 1 && a.k < b.k); };
  std::vector<S> simp;
  std::vector<int> cur;
  std::function<void(int, int, F)> rec = [&](int start, int lvl, F k) {
    for (int x = start; x < n; ++x) {
      bool ok = true; int l2 = lvl; F k2 = k;
      for (int y : cur) {
        if (!adj[x][y]) { ok = false; break; }
        if (l2 == 0 || k2 < w[x][y]) { l2 = 1; k2 = w[x][y]; }
      }
      if (!ok) continue;
      cur.push_back(x); simp.push_back({cur, l2, k2}); rec(x + 1, l2, k2); cur.pop_back();
    }
  };
  rec(0, 0, F());
  std::stable_sort(simp.begin(), simp.end(), [&](S const& a, S const& b) { if (less(a, b)) return true; if (less(b, a)) return false; return a.v.size() < b.v.size(); });
  std::size_t m = simp.size();
  std::map<std::vector<int>, int> pos;
  for (std::size_t i = 0; i < m; ++i) pos[simp[i].v] = (int)i;
  std::vector<std::set<int>> col(m);
  std::vector<int> owner(m, -1);
  std::vector<char> paired(m, 0);
  std::vector<std::string> res;
  auto val = [](S const& s) { std::ostringstream o; if (s.lvl == 0) o << "-oo"; else o << +s.k; return o.str(); };
  for (std::size_t j = 0; j < m; ++j) {
    auto const& s = simp[j].v;
    if (s.size() > 1)
      for (std::size_t d = 0; d < s.size(); ++d) { std::vector<int> f; for (std::size_t t = 0; t < s.size(); ++t) if (t != d) f.push_back(s[t]); col[j].insert(pos.at(f)); }
    while (!col[j].empty() && owner[*col[j].rbegin()] >= 0)
      for (int x : col[owner[*col[j].rbegin()]]) if (!col[j].erase(x)) col[j].insert(x);
    if (!col[j].empty()) {
      int l = *col[j].rbegin(); owner[l] = (int)j; paired[l] = paired[j] = 1;
      if (less(simp[l], simp[j])) res.push_back("dim " + std::to_string(simp[l].v.size() - 1) + " [" + val(simp[l]) + ", " + val(simp[j]) + ")");
    }
  }
  for (std::size_t j = 0; j < m; ++j) if (!paired[j]) res.push_back("dim " + std::to_string(simp[j].v.size() - 1) + " [" + val(simp[j]) + ", never dies)");
  std::sort(res.begin(), res.end());
  return res;
}


int main() {
  // 6-vertex RP^2
  std::vector<std::vector<int>> tri = {{1,2,3},{1,2,4},{1,3,5},{1,4,6},{1,5,6},{2,3,6},{2,4,5},{2,5,6},{3,4,5},{3,4,6}};
  std::set<std::vector<int>> faces;
  for (auto const& t : tri) {
    faces.insert(t);
    for (int i = 0; i < 3; ++i) { faces.insert({t[i]}); for (int j = i + 1; j < 3; ++j) faces.insert({t[i], t[j]}); }
  }
  std::vector<std::vector<int>> f(faces.begin(), faces.end());
  int n = (int)f.size();  // 31
  auto sub = [](std::vector<int> const& a, std::vector<int> const& b) { return a.size() < b.size() && std::includes(b.begin(), b.end(), a.begin(), a.end()); };
  const char* csv = "defect_4_rp2.csv";
  std::vector<std::tuple<int, int, double>> edges;
  {
    std::ofstream o(csv);
    o << "\n";
    for (int i = 1; i < n; ++i) {
      for (int j = 0; j < i; ++j) { bool adj = sub(f[i], f[j]) || sub(f[j], f[i]); o << (adj ? 1 : 2) << ";"; if (adj) edges.emplace_back(j, i, 1.); }
      o << "\n";
    }
  }
  std::vector<int> verts(n);
  for (int i = 0; i < n; ++i) verts[i] = i;
  int ref_inf[3] = {0, 0, 0};
  for (auto const& s : diagram<int, double>(verts, edges)) if (s.find("never dies") != std::string::npos) ++ref_inf[s[4] - '0'];
  std::cout << "independent Z/2Z reference: infinite bars in dim 0,1,2 = " << ref_inf[0] << "," << ref_inf[1] << "," << ref_inf[2] << "\n";

  std::vector<std::string> args = {"util", csv, "-r", "1", "-d", "3", "-p", "2", "-m", "0", "-o", "defect_4.pers"};
  std::vector<char*> argv;
  for (auto& a : args) argv.push_back(&a[0]);
  argv.push_back(nullptr);
  std::remove("defect_4.pers");
  utility_main((int)args.size(), argv.data());
  std::ifstream in("defect_4.pers");
  std::string line;
  int got_inf[3] = {0, 0, 0};
  bool label_ok = true;
  std::cout << "utility output with -p 2:\n";
  while (std::getline(in, line)) {
    if (line.empty()) continue;
    std::cout << "   " << line << "\n";
    std::istringstream is(line);
    int p, d; std::string b, e;
    is >> p >> d >> b >> e;
    if (p != 2) label_ok = false;
    if (e == "inf" && d < 3) ++got_inf[d];
  }
  std::cout << "utility: infinite bars in dim 0,1,2 = " << got_inf[0] << "," << got_inf[1] << "," << got_inf[2] << " (expected " << ref_inf[0] << "," << ref_inf[1] << "," << ref_inf[2] << "), field label "
            << (label_ok ? "2" : "NOT 2") << " (expected 2)\n";
  bool ok = label_ok && std::equal(got_inf, got_inf + 3, ref_inf);
  std::cout << (ok ? "PASS" : "FAIL") << std::endl;
  return ok ? 0 : 1;
}

// Pristine defect 3 (property C06, chain matrix with POSITION indexing): remove_maximal_cell(position) after a vine
// swap which exchanged the pivots of two columns.
// Position_to_index_overlay::remove_maximal_cell hands the MatIdx of the columns to cross to
// Chain_matrix::remove_maximal_cell(cellID, columnsToSwap), which reads them as cell IDs
// (pivotToColumnIndex_.at(i)). Both coincide only as long as no vine swap exchanged the pivots of two columns.
//
// Filtration: a (isolated vertex), v0, v1, e = {v0,v1}. vine_swap(1) exchanges v0 and v1 (non trivial: the chains
// exchange their pivots). Then the maximal cell a at position 0 is removed.
// Remaining filtration v1 v0 e: barcode [0,inf) [1,2].
#include <gudhi/Matrix.h>
#include <gudhi/persistence_matrix_options.h>
#include <iostream>
#include <set>
#include <tuple>
#include <vector>

using namespace Gudhi::persistence_matrix;

struct Chain_opts : Default_options<Column_types::INTRUSIVE_SET, true> {
  static const Column_indexation_types column_indexation_type = Column_indexation_types::POSITION;
  static const bool is_of_boundary_type = false;
  static const bool has_vine_update = true;
  static const bool has_column_pairings = true;
  static const bool has_removable_columns = true;
  static const bool has_map_column_container = true;
};
using M = Matrix<Chain_opts>;
using B = std::vector<unsigned int>;
using Bars = std::multiset<std::tuple<int, int, int> >;

Bars bars(const M& m) {
  Bars b;
  for (const auto& bar : m.get_current_barcode())
    b.insert({bar.dim, (int)bar.birth, bar.death == M::get_null_value<unsigned int>() ? -1 : (int)bar.death});
  return b;
}
void print(const char* n, const Bars& b) {
  std::cout << n;
  for (auto& t : b) std::cout << " [" << std::get<0>(t) << ": " << std::get<1>(t) << ", " << std::get<2>(t) << "]";
  std::cout << "\n";
}

int main() {
  bool ok = true;
  M m;
  m.insert_boundary(B{});       // a
  m.insert_boundary(B{});       // v0
  m.insert_boundary(B{});       // v1
  m.insert_boundary(B{1, 2});   // e
  bool r = m.vine_swap(1);      // v0 <-> v1, the bars stay at their positions
  std::cout << "vine_swap(1) returned " << r << "\n";
  print("after the swap:", bars(m));  // [0,inf) [1,inf) [2,3]
  try {
    m.remove_maximal_cell(0);
    Bars expected = {{0, 0, -1}, {0, 1, 2}};
    print("after removal :", bars(m));
    print("expected      :", expected);
    if (bars(m) != expected) ok = false;
    // positions of the remaining cells: v1 (ID 2), v0 (ID 1), e (ID 3)
    unsigned int expectedPivot[3] = {2, 1, 3};
    for (unsigned int p = 0; p < 3; ++p) {
      if (m.get_column(p).get_pivot() != expectedPivot[p]) {
        std::cout << "column at position " << p << " has pivot " << m.get_column(p).get_pivot() << " instead of "
                  << expectedPivot[p] << "\n";
        ok = false;
      }
    }
  } catch (const std::exception& e) {
    std::cout << "remove_maximal_cell(0) threw: " << e.what() << "\n";
    ok = false;
  }
  std::cout << (ok ? "PASS" : "FAIL") << std::endl;
  return ok ? 0 : 1;
}

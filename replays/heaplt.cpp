#include <gudhi/Matrix.h>
#include <gudhi/persistence_matrix_options.h>
#include <iostream>
using namespace Gudhi::persistence_matrix;
struct Opt : Default_options<Column_types::HEAP, true> {};
int main(){
  Matrix<Opt> m;
  m.insert_column(std::vector<unsigned>{0,1,2});
  m.insert_column(std::vector<unsigned>{0,1,2});
  m.insert_column(std::vector<unsigned>{0,1});
  std::cout << "col0 == col1: " << (m.get_column(0) == m.get_column(1)) << std::endl;
  std::cout << "col2 < col0: " << (m.get_column(2) < m.get_column(0)) << std::endl;
  std::cout << "col0 < col1 (equal columns): " << std::flush;
  std::cout << (m.get_column(0) < m.get_column(1)) << std::endl;
  std::cout << "PASS\n";
}

#include <gudhi/Matrix.h>
#include <gudhi/persistence_matrix_options.h>
#include <iostream>
using namespace Gudhi::persistence_matrix;
template<Column_types C, bool Z2> struct RUOpt : Default_options<C, Z2> {
  static const bool has_column_pairings = true;
  static const bool has_removable_columns = true;
  static const bool can_retrieve_representative_cycles = true;   // selects the RU flavour
};
template<class M> void showU(M& m, unsigned n){ for(unsigned i=0;i<n;++i){ std::cout<<"  U col "<<i<<": "; for(auto& e: m.get_column(i,false)) std::cout<<e.get_row_index()<<" "; std::cout<<"\n"; } }
template<Column_types C> int run(const char* name){
  using M = Matrix<RUOpt<C,true>>;
  std::cout<<name<<":\n";
  M m;
  m.insert_boundary({}); m.insert_boundary({}); m.insert_boundary({});
  m.insert_boundary({0,1}); m.insert_boundary({1,2}); m.insert_boundary({0,2});
  M fresh;
  fresh.insert_boundary({}); fresh.insert_boundary({}); fresh.insert_boundary({});
  fresh.insert_boundary({0,1}); fresh.insert_boundary({1,2});
  m.remove_last();
  int bad=0;
  for(unsigned i=0;i<5;++i){ std::vector<unsigned> a,b; { auto ca=m.get_column(i,false).get_content(6); auto cb=fresh.get_column(i,false).get_content(6); for(unsigned r=0;r<6;++r){ if(ca[r]) a.push_back(r); if(cb[r]) b.push_back(r);} } if(a!=b){ bad++; std::cout<<"  U column "<<i<<" after remove_last: "; for(auto x:a) std::cout<<x<<" "; std::cout<<" | rebuilt from scratch: "; for(auto x:b) std::cout<<x<<" "; std::cout<<"\n"; } }
  try { m.insert_boundary({0,2}); std::cout<<"  re-inserted\n"; showU(m,6);} catch(std::exception& e){ std::cout<<"  re-insertion threw: "<<e.what()<<"\n"; bad++; } catch(const char* e){ std::cout<<"  re-insertion threw: "<<e<<"\n"; bad++; }
  return bad;
}
int main(){ int bad=0; bad+=run<Column_types::INTRUSIVE_SET>("intrusive_set"); bad+=run<Column_types::LIST>("list"); bad+=run<Column_types::VECTOR>("vector"); std::cout<<(bad?"FAIL":"PASS")<<"\n"; return bad!=0; }
